"""C20 workload: programs whose *concrete syntax* is hostile to a CST-rewriting
tool, plus stubs for the same definitions.

`generate(rng)` returns source text: nested functions, methods, decorators,
defaults, *args/**kw, keyword-only and positional-only parameters, class and
module variables, partial existing annotations, existing typing imports,
comments in odd places, one-liners, semicolons, continuation lines, tabs.
Only `typing`, `collections`, `enum` are imported (the sandbox typeshed is empty).

`make_stub(src, rng, mode)` reads the definitions of `src` with `ast` and writes
a stub for them with richer types (Any, Never, TypeVars, Optional, forward
references, overloads, `typing.`-qualified names); mode "extra_missing" drops
some definitions and adds others.
"""
from __future__ import annotations

import ast
import random

# ---------------------------------------------------------------------------
# program generator

LITS = ["0", "1", "-3", "2.5", "'s'", "'a,b'", "'x)#'", "b'b'", "None", "True", "[]", "[1, 2]",
        "{}", "{'k': 1}", "(1, 'a')", "{1, 2}", "[[1], [2]]", "('x',)", "1 + 2", "'é'"]
EXISTING_ANNS = ["int", "str", "float", "bool", "bytes", "list", "dict", "object", "'C0'",
                 "List[int]", "Optional[str]", "typing.List[int]", "'List[int]'",
                 "Dict[str, int]", "tuple", "list[int]", "Optional['C0']"]


class _G:
  def __init__(self, rng):
    self.r = rng
    self.out = []
    self.n = 0
    self.classes = []
    self.funcs = []
    self.vars = []
    self.typing_style = rng.choice(["from", "from", "module", "alias", "none", "none", "paren"])
    self.tab = rng.random() < 0.08
    self.deco = []

  def name(self, p):
    self.n += 1
    return f"{p}{self.n}"

  def lit(self):
    return self.r.choice(LITS)

  def ann(self):
    """An annotation that is valid given the imports this program has."""
    r = self.r
    while True:
      a = r.choice(EXISTING_ANNS)
      needs_from = any(t in a for t in ("List[", "Optional[", "Dict[")) and not a.startswith("typing.")
      if a.startswith("typing.") and self.typing_style != "module":
        continue
      if needs_from and self.typing_style not in ("from", "paren"):
        continue
      if "C0" in a and not self.want_class0:
        continue
      return a

  # -- pieces ---------------------------------------------------------------
  def header(self):
    r = self.r
    o = self.out
    if r.random() < 0.3:
      o.append('"""Module docstring: def f(x): -> not code."""')
    if r.random() < 0.2:
      o.append("# leading comment  # with a second hash")
    if r.random() < 0.12:
      o.append("from __future__ import annotations")
    ts = self.typing_style
    if ts == "from":
      o.append("from typing import List, Optional, Dict")
    elif ts == "paren":
      o.append("from typing import (List,  # the list\n    Optional,\n    Dict,\n)")
    elif ts == "module":
      o.append("import typing")
    elif ts == "alias":
      o.append("import typing as t")
    self.has_collections = r.random() < 0.35
    if self.has_collections:
      o.append("import collections")
    if r.random() < 0.2:
      o.append("import enum")
      self.has_enum = True
    else:
      self.has_enum = False
    if ts in ("from", "paren") and r.random() < 0.25:
      o.append("from typing import TypeVar\nT = TypeVar('T')")
    # existing Any / Never annotations (return and variable positions) need the names in scope
    self.any_names = []
    if r.random() < 0.4:
      if ts == "module":
        self.any_names = ["typing.Any", "typing.Never"]
      elif ts == "alias":
        self.any_names = ["t.Any", "t.Never"]
      else:
        o.append(r.choice(["from typing import Any, Never", "from typing import Any\nfrom typing import Never"]))
        self.any_names = ["Any", "Never"]
    if r.random() < 0.5:
      o.append("")

  def params(self, method=None):
    """Returns (text, one_line_ok).  method in {None,'self','cls','static'}."""
    r = self.r
    parts = []
    if method in ("self", "cls"):
      parts.append(method)
    npos = r.choice([0, 1, 1, 2, 2, 3])
    posonly = r.random() < 0.15 and npos >= 1
    seen_default = False
    names = []
    for i in range(npos):
      p = self.name("p")
      names.append(p)
      s = p
      if r.random() < 0.22:
        s += ": " + self.ann()
        if seen_default or r.random() < 0.4:
          s += " = " + r.choice(["None", "0", "'d'"])
          seen_default = True
      elif seen_default or r.random() < 0.3:
        s += r.choice(["=", " = ", "= "]) + r.choice(LITS + ["lambda q: (q, 1)", "(1,\n        2)"])
        seen_default = True
      parts.append(s)
      if posonly and i == 0:
        parts.append("/")
    star = r.random()
    if star < 0.2:
      a = "*" + self.name("args")
      if r.random() < 0.2:
        a += ": int"
      parts.append(a)
    elif star < 0.32:
      parts.append("*")
    if star < 0.32:
      for _ in range(r.choice([1, 1, 2])):
        k = self.name("k")
        names.append(k)
        s = k
        if r.random() < 0.2:
          s += ": " + self.ann()
        if r.random() < 0.6:
          s += "=" + self.lit()
        parts.append(s)
    if r.random() < 0.15:
      parts.append("**" + self.name("kw"))
    return parts, names

  def fmt_def(self, kw, fname, parts, ret, indent):
    r = self.r
    style = r.random()
    retann = f" -> {ret}" if ret else ""
    multiline = any("\n" in p for p in parts)
    if style < 0.12 and parts and not multiline:
      inner = ",\n".join(f"{indent}        {p}" + ("  # c" if r.random() < 0.3 else "") for p in parts[:-1])
      last = parts[-1]
      trailing = r.choice(["", ","])
      body = (inner + ",\n" if inner else "") + f"{indent}        {last}{trailing}\n{indent}    "
      return f"{indent}{kw} {fname}(\n{body}){retann}:"
    if style < 0.2:
      return f"{indent}{kw} {fname} ( {' , '.join(parts)} ){retann} :"
    if style < 0.26 and not multiline:
      return f"{indent}{kw} {fname}({', '.join(parts)}){retann}:  # trailing: comment -> int"
    return f"{indent}{kw} {fname}({', '.join(parts)}){retann}:"

  def body(self, indent, names, depth, method=None, init=False):
    """Function body lines."""
    r = self.r
    ind = indent + ("\t" if self.tab and depth == 0 and not indent else "    ")
    if self.tab and indent == "" and depth == 0:
      ind = "\t"
    lines = []
    if r.random() < 0.2:
      lines.append(f'{ind}"""Doc: x: int = 3."""')
    if r.random() < 0.5:
      lines.append(f"{ind}{self.name('loc')} = {self.lit()}")
    if r.random() < 0.2:
      lines.append(f"{ind}{self.name('loc')}: int = 2")
    if r.random() < 0.12:
      lines.append(f"{ind}{self.name('loc')}: 'str'")
    if method == "self" and r.random() < 0.6:
      lines.append(f"{ind}self.{self.name('at')} = {names[0] if names and r.random() < 0.5 else self.lit()}")
    if method == "self" and r.random() < 0.15:
      lines.append(f"{ind}self.{self.name('at')}: int = 3")
    if depth < 2 and r.random() < 0.3:
      # nested function, possibly annotated, possibly closing over a parameter
      g = self.name("g")
      gp = self.name("q")
      ann = r.choice(["", "", ": int", ": 'str'"])
      ret = r.choice(["", "", " -> int", " -> None"])
      lines.append(f"{ind}def {g}({gp}{ann}, z=1){ret}:")
      lines.append(f"{ind}    w = ({gp}, {names[0] if names else 'z'})")
      if depth < 1 and r.random() < 0.3:
        lines.append(f"{ind}    def inner(a, *b, c=None, **d): return (a, b, c, d)")
        lines.append(f"{ind}    return inner(w)")
      else:
        lines.append(f"{ind}    return w")
      if r.random() < 0.7:
        lines.append(f"{ind}{self.name('loc')} = {g}({self.lit()})")
    if depth < 1 and r.random() < 0.08:
      lines.append(f"{ind}class Local:\n{ind}    x = 1\n{ind}    def m(self, a): return a")
    if r.random() < 0.12:
      lines.append(f"{ind}{self.name('loc')} = lambda a, b=2: (a, b)")
    kind = r.random()
    if init:
      lines.append(f"{ind}pass" if kind < 0.5 else f"{ind}self.{self.name('at')} = {self.lit()}")
    elif kind < 0.1:
      lines.append(f"{ind}raise ValueError('always')")
    elif kind < 0.18:
      lines.append(f"{ind}yield {self.lit()}")
    elif kind < 0.3:
      lines.append(f"{ind}pass")
    elif kind < 0.45 and names:
      lines.append(f"{ind}return {names[-1]}")
    elif kind < 0.55 and names:
      lines.append(f"{ind}if {names[0]}:\n{ind}    return {self.lit()}\n{ind}return None")
    else:
      lines.append(f"{ind}return {self.lit()}")
    return lines

  def function(self, indent="", method=None, fname=None, depth=0):
    r = self.r
    fname = fname or self.name("f")
    parts, names = self.params(method)
    ret = self.ann() if r.random() < 0.15 else ""
    if r.random() < 0.04:
      ret = "None"
    if self.any_names and r.random() < 0.2:
      ret = r.choice(self.any_names)
    kw = "async def" if r.random() < 0.07 else "def"
    decos = []
    if self.deco and r.random() < 0.25:
      d = r.choice(self.deco)
      decos.append(f"{indent}@{d}" + ("(3)" if d.endswith("_args") else ""))
      if r.random() < 0.2:
        decos.append(f"{indent}# comment between decorator and def")
    if method == "static":
      decos.append(f"{indent}@staticmethod")
    elif method == "cls":
      decos.append(f"{indent}@classmethod")
    one_liner = r.random() < 0.12 and not any("\n" in p for p in parts)
    lines = list(decos)
    if one_liner:
      head = f"{indent}{kw} {fname}({', '.join(parts)})" + (f" -> {ret}" if ret else "") + ":"
      stmt = r.choice([f"return {self.lit()}", "pass", f"x = {self.lit()}; return x",
                       f"return {names[0]}" if names else "return 1"])
      lines.append(f"{head} {stmt}" + ("  # one-liner" if r.random() < 0.3 else ""))
    else:
      lines.append(self.fmt_def(kw, fname, parts, ret, indent))
      if r.random() < 0.1:
        lines.append(f"{indent}    # comment before the body")
      lines += self.body(indent, names, depth, "self" if method == "self" else None)
    return lines, fname

  def klass(self, indent=""):
    r = self.r
    cname = f"C{len(self.classes)}"
    bases = ""
    if self.classes and r.random() < 0.35:
      bases = "(" + r.choice(self.classes) + ")"
    elif r.random() < 0.1:
      bases = "(object)"
    elif r.random() < 0.1:
      bases = "()"
    lines = [f"{indent}class {cname}{bases}:" + ("  # class comment" if r.random() < 0.2 else "")]
    ind = indent + "    "
    if r.random() < 0.3:
      lines.append(f'{ind}"""Class doc."""')
    for _ in range(r.choice([0, 1, 1, 2, 3])):
      v = self.name("ca")
      k = r.random()
      if self.any_names and k < 0.12:
        lines.append(f"{ind}{v}: {r.choice(self.any_names)}" + (f" = {self.lit()}" if r.random() < 0.6 else ""))
      elif k < 0.5:
        lines.append(f"{ind}{v} = {self.lit()}")
      elif k < 0.65:
        lines.append(f"{ind}{v}: {self.ann()} = {self.lit()}")
      elif k < 0.75:
        lines.append(f"{ind}{v}: {self.ann()}")
      elif k < 0.82:
        lines.append(f"{ind}{v} = {self.lit()}; {self.name('ca')} = {self.lit()}")
      elif k < 0.88 and self.hoist:
        lines.append(f"{ind}{v}, {self.name('ca')} = [1], {{'k': 2.5}}")
      elif k < 0.92 and self.hoist:
        lines.append(f"{ind}{v} = {self.name('ca')} = [1.5]")
      else:
        lines.append(f"{ind}{v} = \\\n{ind}    {self.lit()}")
    if r.random() < 0.75:
      parts, names = self.params("self")
      lines.append(self.fmt_def("def", "__init__", parts, "None" if r.random() < 0.15 else "", ind))
      lines += self.body(ind, names, 1, "self", init=True)
    for _ in range(r.choice([0, 1, 2, 3])):
      m = r.choice(["self", "self", "self", "static", "cls"])
      if r.random() < 0.12:
        lines.append(f"{ind}if True:")
        fl, _ = self.function(ind + "    ", m, self.name("m"), depth=1)
      else:
        fl, _ = self.function(ind, m, self.name("m"), depth=1)
      lines += fl
      if r.random() < 0.3:
        lines.append("")
    if r.random() < 0.25:
      p = self.name("prop")
      lines += [f"{ind}@property", f"{ind}def {p}(self):", f"{ind}    return {self.lit()}"]
      if r.random() < 0.4:
        lines += [f"{ind}@{p}.setter", f"{ind}def {p}(self, value):", f"{ind}    self._{p} = value"]
    if r.random() < 0.15:
      lines += [f"{ind}class Inner:", f"{ind}    ia = {self.lit()}",
                f"{ind}    def im(self, a, b=None): return a"]
    if r.random() < 0.1 and len(lines) > 2:
      # the same method name defined twice
      lines += [f"{ind}def dup(self, a): return a", f"{ind}def dup(self, a, b): return b"]
    if len(lines) == 1:
      lines.append(f"{ind}pass")
    self.classes.append(cname)
    return lines

  def module_var(self):
    r = self.r
    v = self.name("v")
    k = r.random()
    self.vars.append(v)
    if self.any_names and k < 0.12:
      return [f"{v}: {r.choice(self.any_names)}" + (f" = {self.lit()}" if r.random() < 0.6 else "")]
    if k < 0.35:
      return [f"{v} = {self.lit()}"]
    if k < 0.45:
      return [f"{v}: {self.ann()} = {self.lit()}"]
    if k < 0.5:
      return [f"{v}: {self.ann()}"]
    if k < 0.57:
      w = self.name("v")
      return [f"{v} = {w} = {self.lit()}"]
    if k < 0.64:
      w = self.name("v")
      return [f"{v}, {w} = {self.lit()}, {self.lit()}"]
    if k < 0.7:
      return [f"{v} = {self.lit()}; {self.name('v')} = {self.lit()}"]
    if k < 0.76:
      return [f"{v} = ({self.lit()},  # tuple\n    {self.lit()})"]
    if k < 0.8:
      return [f"{v} = 1 + \\\n    2"]
    if k < 0.86 and self.funcs:
      return [f"{v} = {self.r.choice(self.funcs)}"]
    if k < 0.9 and self.classes:
      return [f"{v} = {self.r.choice(self.classes)}"]
    if k < 0.94 and self.reassign:
      return [f"{v} = {self.lit()}", f"{v} = {self.lit()}"]
    if k < 0.97:
      return [f"if {self.lit()}:\n    {v} = {self.lit()}\nelse:\n    {v} = {self.lit()}"]
    return [f"try:\n    {v} = int('z')\nexcept ValueError:\n    {v} = {self.lit()}"]

  def build(self):
    r = self.r
    self.want_class0 = r.random() < 0.7
    self.hoist = r.random() < 0.12         # class-level tuple / multi targets
    self.reassign = r.random() < 0.3       # module variables assigned twice
    self.header()
    o = self.out
    if r.random() < 0.4:
      o += ["def deco(fn):", "    return fn"]
      self.deco.append("deco")
    if r.random() < 0.2:
      o += ["def deco_args(n):", "    def wrap(fn): return fn", "    return wrap"]
      self.deco.append("deco_args")
    if self.want_class0:
      o += self.klass()
    items = r.randint(3, 9)
    for _ in range(items):
      k = r.random()
      if k < 0.4:
        fl, fname = self.function()
        o += fl
        self.funcs.append(fname)
      elif k < 0.58:
        o += self.klass()
      elif k < 0.62 and self.funcs:
        # a function defined twice / in both branches
        f = r.choice(self.funcs)
        o += [f"if {self.lit()}:", f"    def {f}2(a, b=1): return a", "else:",
              f"    def {f}2(a, b=1): return b"]
      elif k < 0.65 and self.has_collections:
        o.append(f"NT{self.n} = collections.namedtuple('NT{self.n}', ['a', 'b'])")
        self.n += 1
      elif k < 0.68 and self.has_enum:
        o += [f"class E{self.n}(enum.Enum):", "    RED = 1", "    BLUE = 2"]
        self.n += 1
      else:
        o += self.module_var()
      if r.random() < 0.25:
        o.append("")
      if r.random() < 0.1:
        o.append("# a comment: x: int = 'not code'")
    if self.funcs and r.random() < 0.4:
      o += ["if __name__ == '__main__':", f"    {self.funcs[0]}"]
    src = "\n".join(o) + "\n"
    if r.random() < 0.04:
      src = src.replace("\n", "\r\n")
    return src


def _with_tabs(src):
  """In ~1 source of 6 (decided by the text, not by the generator's random stream): two module variables whose
  string / bytes literal holds a literal TAB character, and a multi-line string with TAB-led continuation lines
  (seed C20-f: the source was passed through expandtabs before parsing)."""
  import zlib
  if zlib.crc32(src.encode()) % 6:
    return src
  extra = 'TABBED_S = "a\tb"\nTABBED_B = b"x\ty"\nTABBED_DOC = """first\n\tsecond\n\t\tthird"""\n'
  return src + ("" if src.endswith("\n") else "\n") + extra


def generate(rng: random.Random) -> str:
  """A compilable program (re-drawn until `compile` accepts it)."""
  for _ in range(20):
    src = _G(rng).build()
    try:
      compile(src, "<gen>", "exec", dont_inherit=True)
      return _with_tabs(src)
    except (SyntaxError, ValueError):
      continue
  return "x = 1\ndef f(a, b=2):\n    return a\n"


# ---------------------------------------------------------------------------
# stub generator


def _types(rng, classes, style, tvars):
  """A random type expression in the given qualification style."""
  q = "typing." if style == "module" else ""
  r = rng
  base = ["int", "str", "float", "bool", "bytes", "None", "object", "complex"]
  def t(depth=0):
    k = r.random()
    if depth > 2 or k < 0.3:
      return r.choice(base)
    if k < 0.36:
      return q + "Any"
    if k < 0.44 and classes:
      c = r.choice(classes)
      return c if r.random() < 0.6 else f"'{c}'"
    if k < 0.52:
      return f"{q}Optional[{t(depth + 1)}]"
    if k < 0.6:
      return f"{q}List[{t(depth + 1)}]"
    if k < 0.66:
      return f"list[{t(depth + 1)}]"
    if k < 0.72:
      return f"{q}Dict[str, {t(depth + 1)}]"
    if k < 0.78:
      return f"{q}Union[{t(depth + 1)}, {t(depth + 1)}]"
    if k < 0.83:
      return f"{q}Tuple[{t(depth + 1)}, ...]"
    if k < 0.88:
      return f"{q}Callable[[{t(depth + 1)}], {t(depth + 1)}]"
    if k < 0.92 and tvars:
      return r.choice(tvars)
    if k < 0.95 and classes:
      return f"{q}List['{r.choice(classes)}']"
    if k < 0.97:
      return f"{q}Literal[1, 'a']"
    return f"dict[str, {t(depth + 1)}]"
  return t


def make_stub(src: str, rng: random.Random, mode: str = "rich") -> str:
  """mode: 'rich' (same definitions) | 'extra_missing'."""
  tree = ast.parse(src)
  r = rng
  style = r.choice(["from", "from", "from", "module"])
  q = "typing." if style == "module" else ""
  classes = [n.name for n in tree.body if isinstance(n, ast.ClassDef)]
  tvars = ["_T", "_K"] if r.random() < 0.5 else []
  t = _types(r, classes, style, tvars)
  drop = (lambda: r.random() < 0.25) if mode == "extra_missing" else (lambda: False)
  lines = []
  used_overload = [False]

  def ret_type():
    k = r.random()
    if k < 0.12:
      return q + "Any" if r.random() < 0.25 else "Any"
    if k < 0.2:
      return "Never"
    if k < 0.25:
      return "NoReturn"
    return t()

  def var_type():
    k = r.random()
    if k < 0.15:
      return "Any"
    if k < 0.2:
      return "Never"
    if k < 0.35:
      return r.choice(["int", "str", "float", "bool", "Literal[1]"])
    return t()

  def sig(fn, in_class, rename=False, annotate=0.75):
    a = fn.args
    parts = []
    def one(arg, default):
      name = arg.arg
      if rename:
        name = name + "_x"
      s = name
      first_self = in_class and arg is (a.posonlyargs + a.args + [None])[0]
      if not first_self and r.random() < annotate:
        if arg.annotation is not None and r.random() < 0.5:
          s += ": " + ast.unparse(arg.annotation)      # agree with the source
        else:
          s += ": " + t()
      if default:
        s += " = ..."
      return s
    npos = len(a.posonlyargs) + len(a.args)
    ndef = len(a.defaults)
    allpos = a.posonlyargs + a.args
    for i, arg in enumerate(allpos):
      parts.append(one(arg, i >= npos - ndef))
      if a.posonlyargs and i == len(a.posonlyargs) - 1:
        parts.append("/")
    if a.vararg:
      parts.append("*" + a.vararg.arg + (": " + t() if r.random() < 0.5 else ""))
    elif a.kwonlyargs:
      parts.append("*")
    for arg, d in zip(a.kwonlyargs, a.kw_defaults):
      rn, rename = rename, False
      parts.append(one(arg, d is not None))
      rename = rn
    if a.kwarg:
      parts.append("**" + a.kwarg.arg + (": " + t() if r.random() < 0.5 else ""))
    return ", ".join(parts)

  def emit_func(fn, ind, in_class):
    if drop():
      return
    decos = []
    for d in fn.decorator_list:
      txt = ast.unparse(d)
      if txt in ("staticmethod", "classmethod", "property") or txt.endswith(".setter"):
        decos.append(f"{ind}@{txt}")
    kw = "async def" if isinstance(fn, ast.AsyncFunctionDef) else "def"
    k = r.random()
    if k < 0.08:
      used_overload[0] = True
      for _ in range(2):
        lines.extend(decos)
        lines.append(f"{ind}@{q}overload")
        lines.append(f"{ind}{kw} {fn.name}({sig(fn, in_class)}) -> {ret_type()}: ...")
      return
    if k < 0.12 and (fn.args.args[1:] if in_class else fn.args.args):
      lines.extend(decos)
      lines.append(f"{ind}{kw} {fn.name}({sig(fn, in_class, rename=True)}) -> {ret_type()}: ...")
      return
    if k < 0.15:
      lines.extend(decos)     # different arity: must not be applied
      lines.append(f"{ind}{kw} {fn.name}({'self, ' if in_class else ''}zz: int, yy: str, xx: float, ww: bytes) -> int: ...")
      return
    lines.extend(decos)
    if fn.returns is not None and r.random() < 0.5:
      rt = ast.unparse(fn.returns)
    else:
      rt = ret_type()
    if r.random() < 0.07:
      lines.append(f"{ind}{kw} {fn.name}({sig(fn, in_class)}): ...")
    else:
      lines.append(f"{ind}{kw} {fn.name}({sig(fn, in_class)}) -> {rt}: ...")

  def emit_var(name, ind):
    if drop():
      return
    ty = var_type()
    lines.append(f"{ind}{name}: {ty}" + (" = ..." if r.random() < 0.3 else ""))

  def walk(body, ind, in_class):
    seen_vars = set()
    n0 = len(lines)
    for st in body:
      if isinstance(st, (ast.FunctionDef, ast.AsyncFunctionDef)):
        emit_func(st, ind, in_class)
      elif isinstance(st, ast.ClassDef):
        if drop():
          continue
        bases = [ast.unparse(b) for b in st.bases]
        if tvars and r.random() < 0.06:
          bases.append(f"{q}Generic[_T]")
        lines.append(f"{ind}class {st.name}" + (f"({', '.join(bases)})" if bases else "") + ":")
        m0 = len(lines)
        walk(st.body, ind + "    ", True)
        if mode == "extra_missing" and r.random() < 0.4:
          lines.append(f"{ind}    def extra_method(self, a: int) -> str: ...")
          lines.append(f"{ind}    extra_attr: {q}List[int]")
        if len(lines) == m0:
          lines.append(f"{ind}    ...")
      else:
        targets = []
        if isinstance(st, ast.Assign):
          for tg in st.targets:
            targets += [n.id for n in ast.walk(tg) if isinstance(n, ast.Name) and isinstance(n.ctx, ast.Store)]
        elif isinstance(st, ast.AnnAssign) and isinstance(st.target, ast.Name):
          targets = [st.target.id]
        elif isinstance(st, (ast.If, ast.Try)):
          for sub in ast.walk(st):
            if isinstance(sub, ast.Assign):
              targets += [n.id for tg in sub.targets for n in ast.walk(tg)
                          if isinstance(n, ast.Name) and isinstance(n.ctx, ast.Store)]
            elif isinstance(sub, (ast.FunctionDef, ast.AsyncFunctionDef)) and sub.name not in seen_vars:
              seen_vars.add(sub.name)
              emit_func(sub, ind, in_class)
        for name in targets:
          if name not in seen_vars and not (name == "T" and not in_class):
            seen_vars.add(name)
            emit_var(name, ind)
      if in_class and isinstance(st, (ast.FunctionDef,)) and st.name == "__init__":
        for sub in ast.walk(st):
          if isinstance(sub, (ast.Assign, ast.AnnAssign)):
            tgs = sub.targets if isinstance(sub, ast.Assign) else [sub.target]
            for tg in tgs:
              if isinstance(tg, ast.Attribute) and isinstance(tg.value, ast.Name) and tg.value.id == "self" \
                 and tg.attr not in seen_vars:
                seen_vars.add(tg.attr)
                emit_var(tg.attr, ind)

  walk(tree.body, "", False)
  if mode == "extra_missing":
    lines.append("def extra_function(a: int, *, b: str = ...) -> 'ExtraClass': ...")
    lines.append(f"extra_var: {q}Dict[str, {q}Any]")
    if r.random() < 0.6:
      lines.append("class ExtraClass:\n    field: int\n    def method(self) -> None: ...")
  head = []
  if style == "module":
    head.append("import typing")
    head.append("from typing import Any, Never, NoReturn, Literal, TypeVar")
  else:
    head.append("from typing import (Any, Callable, Dict, Generic, List, Literal, Never, NoReturn, "
                "Optional, Tuple, TypeVar, Union, overload)")
  if tvars:
    # (libcst only recognises the spelling `TypeVar(...)`, not `typing.TypeVar(...)`)
    head.append("_T = TypeVar('_T')")
    head.append("_K = TypeVar('_K', int, str)")
  return "\n".join(head + [""] + lines) + "\n"
