"""Ground value / expression grammar shared by C14 and C02.

A *ground value* is an expression whose run-time value is fully known: a
literal, a display of literals, a builtin object, or an instance of one of the
generated classes below.  Every entry carries the label of its run-time class
(`cls`), whether that class is a builtin (`builtin`), and - for C02 - nothing
else: the oracle there inspects the real value obtained by `eval`.

Nothing here depends on pytype.
"""
from __future__ import annotations

import dataclasses

# ---------------------------------------------------------------------------
# C14: classes with / without dunders.  No annotations anywhere: an annotation
# is a declaration CPython does not enforce, which would blur the oracle.

C14_CLASSES = '''\
class P:
  ca = 1
  def __init__(self):
    self.ia = 'a'
  def m(self):
    return 1
  @property
  def p(self):
    return 1.5
class Add:
  def __add__(self, o):
    return 1
class RAdd:
  def __radd__(self, o):
    return 'a'
class SubAdd(Add):
  def __add__(self, o):
    return 1.5
class SubR(Add):
  def __radd__(self, o):
    return 'a'
class Arith:
  def __add__(self, o):
    return 1
  def __sub__(self, o):
    return 1
  def __mul__(self, o):
    return 1
  def __truediv__(self, o):
    return 1.5
  def __rsub__(self, o):
    return 1
  def __rmul__(self, o):
    return 'a'
class Neg:
  def __neg__(self):
    return 1
class GetItem:
  def __getitem__(self, k):
    return k
class Call:
  def __call__(self, *a):
    return 1
class Call0:
  def __call__(self):
    return 1
class GA:
  def __getattr__(self, name):
    return 1
class NI:
  def __add__(self, o):
    return NotImplemented
  def __rsub__(self, o):
    return NotImplemented
class MyInt(int):
  pass
class MyList(list):
  pass
class Base:
  def __init__(self):
    self.base = 0
class Left(Base):
  def __init__(self):
    super().__init__()
    self.left = 1
class Right(Base):
  def __init__(self):
    super().__init__()
    self.right = 'a'
class Both(Left, Right):
  def __init__(self):
    super().__init__()
    self.both = 1.5
class Chain(Left):
  def __init__(self):
    super().__init__()
    self.chain = [1]
class Proxy:
  def __init__(self, target):
    self._target = target
  def __getattr__(self, name):
    return getattr(self._target, name)
class Fallback:
  def __getattr__(self, name):
    return lambda *args: 0
class Good(Fallback):
  def __neg__(self):
    return 1
  def __call__(self, *a):
    return 1
  def __getitem__(self, k):
    return k
  def __add__(self, o):
    return 1
'''

# classes whose instances resolve every attribute name through __getattr__
GETATTR_CLASSES = ("GA", "Proxy", "Fallback", "Good")

# named constants for the constant-foldable operands: CPython folds `1 + 1.5`
# at compile time, so the literal spelling never reaches pytype's operator
# dispatch when it succeeds; the named spelling does.
C14_NAMED = '''\
k_int = 1
k_bool = True
k_float = 1.5
k_complex = 2j
k_str = 'a'
k_bytes = b'b'
k_none = None
k_ellipsis = ...
k_tuple = (1, 'a')
'''


@dataclasses.dataclass(frozen=True)
class Val:
  expr: str          # source text (self-delimiting: safe as an operand)
  cls: str           # label of the run-time class
  builtin: bool      # run-time class is a builtin (the converse clause of C14 only covers these + user instances)
  group: str         # scalar | container | nested | object | user | derived
  named: str = ""    # name of the constant holding the same value (foldable literals only)
  instance: bool = True   # a data instance (not a class object / builtin function)


def _v(expr, cls, builtin, group, named="", instance=True):
  return Val(expr, cls, builtin, group, named, instance)


C14_VALUES = [
    _v("1", "int", True, "scalar", "k_int"),
    _v("True", "bool", True, "scalar", "k_bool"),
    _v("1.5", "float", True, "scalar", "k_float"),
    _v("2j", "complex", True, "scalar", "k_complex"),
    _v("'a'", "str", True, "scalar", "k_str"),
    _v("b'b'", "bytes", True, "scalar", "k_bytes"),
    _v("None", "NoneType", True, "scalar", "k_none"),
    _v("[1]", "list", True, "container"),
    _v("(1, 'a')", "tuple", True, "container", "k_tuple"),
    _v("{1: 2}", "dict", True, "container"),
    _v("{1}", "set", True, "container"),
    _v("frozenset({1})", "frozenset", True, "container"),
    _v("range(3)", "range", True, "container"),
    _v("bytearray(b'x')", "bytearray", True, "container"),
    _v("...", "ellipsis", True, "object", "k_ellipsis"),
    _v("len", "builtin_function", True, "object", instance=False),
    _v("int", "type", True, "object", instance=False),
    # nested / heterogeneous containers
    _v("[[1]]", "list", True, "nested"),
    _v("[1, 'a']", "list", True, "nested"),
    _v("{'k': [1]}", "dict", True, "nested"),
    _v("([1], {1})", "tuple", True, "nested"),
    _v("[(1, 'a')]", "list", True, "nested"),
    _v("{'k': 1}", "dict", True, "nested"),
    # instances of generated classes
    _v("P()", "P", False, "user"),
    _v("Add()", "Add", False, "user"),
    _v("RAdd()", "RAdd", False, "user"),
    _v("SubAdd()", "SubAdd", False, "user"),
    _v("SubR()", "SubR", False, "user"),
    _v("Arith()", "Arith", False, "user"),
    _v("Neg()", "Neg", False, "user"),
    _v("GetItem()", "GetItem", False, "user"),
    _v("Call()", "Call", False, "user"),
    _v("Call0()", "Call0", False, "user"),
    _v("GA()", "GA", False, "user"),
    _v("NI()", "NI", False, "user"),
    _v("MyInt(3)", "MyInt", False, "user"),
    _v("MyList([1])", "MyList", False, "user"),
    # multiple inheritance with cooperative super().__init__(): attributes set in sibling branches
    _v("Both()", "Both", False, "user"),
    _v("Chain()", "Chain", False, "user"),
    # __getattr__ returning a callable / Any (delegation idiom): implicit dunder use must still fail
    _v("Proxy([1, 2])", "Proxy", False, "user"),
    _v("Fallback()", "Fallback", False, "user"),
    _v("Good()", "Good", False, "user"),
]

# two-level operands that are also part of the quick tier: attributes reached
# through a super().__init__() chain, then used under operators / subscripts / calls
C14_DERIVED_QUICK = [
    _v("Both().right", "str", True, "derived"),
    _v("Both().base", "int", True, "derived"),
    _v("Both().both", "float", True, "derived"),
    _v("Chain().chain", "list", True, "derived"),
    _v("Proxy([1, 2]).count(1)", "int", True, "derived"),
]

# Two-level operands (thorough tier): clean one-level expressions over the
# grammar.  Elements drawn out of a *heterogeneous* list/dict are deliberately
# not used: pytype models list elements as one joined type, which is outside
# "operands are literals or instances".
C14_DERIVED = [
    _v("len('a')", "int", True, "derived"),
    _v("str(1)", "str", True, "derived"),
    _v("[1][0]", "int", True, "derived"),
    _v("(1, 'a')[1]", "str", True, "derived"),
    _v("{1: 2}[1]", "int", True, "derived"),
    _v("'a'.upper()", "str", True, "derived"),
    _v("([1] + [2])", "list", True, "derived"),
    _v("((1,) * 2)", "tuple", True, "derived"),
    _v("(-Neg())", "int", True, "derived"),
    _v("(Add() + 1)", "int", True, "derived"),
    _v("(1 + RAdd())", "str", True, "derived"),
    _v("P().m()", "int", True, "derived"),
    _v("P().ca", "int", True, "derived"),
    _v("P().ia", "str", True, "derived"),
    _v("P().p", "float", True, "derived"),
    _v("Call()()", "int", True, "derived"),
    _v("GetItem()['k']", "str", True, "derived"),
    _v("GA().x", "int", True, "derived"),
    _v("int('1')", "int", True, "derived"),
    _v("float(1)", "float", True, "derived"),
    _v("list('a')", "list", True, "derived"),
    _v("dict()", "dict", True, "derived"),
    _v("[]", "list", True, "derived"),
    _v("{}", "dict", True, "derived"),
    _v("()", "tuple", True, "derived"),
    _v("set()", "set", True, "derived"),
    _v("abs(-1.5)", "float", True, "derived"),
    _v("(1.5).is_integer()", "bool", True, "derived"),
    _v("b'b'.decode()", "str", True, "derived"),
    _v("'a'.encode()", "bytes", True, "derived"),
]

BASIC_BINOPS = ["+", "-", "*", "/"]
MORE_BINOPS = ["//", "%", "**", "@", "<<", ">>", "&", "|", "^", "<", "<=", "==", "in"]
UNARY = ["-", "+", "~"]
SUBSCRIPTS = [("0", "int"), ("'k'", "str"), ("None", "NoneType"), ("1.0", "float"),
              ("0:1", "slice")]
ATTRS = [
    # existing on some builtin, missing on most
    "real", "imag", "bit_length", "is_integer", "conjugate", "upper", "join", "decode",
    "encode", "append", "sort", "pop", "copy", "keys", "items", "add", "union", "count",
    "index", "start", "hex", "clear",
    # generic / dunder
    "__len__", "__class__", "__doc__", "__name__", "__add__", "__hash__",
    # user-class names
    "ca", "ia", "m", "p", "base", "left", "right", "both", "chain",
    # missing everywhere
    "foo", "Upper", "__nope__",
]


# ---------------------------------------------------------------------------
# C02: class hierarchy + value expressions.

C02_CLASSES = '''\
class A:
  pass
class B(A):
  pass
class C:
  pass
class D(B, C):
  pass
class S:
  def __len__(self):
    return 0
  def __int__(self):
    return 0
  def __abs__(self):
    return 0
class U:
  __hash__ = None
  def __eq__(self, o):
    return self is o
def fn(x):
  return x
def fn0():
  return 1
def gen():
  yield 1
'''

C02_TYPING_IMPORT = (
    "from typing import (Any, Callable, Collection, Dict, FrozenSet, Hashable, Iterable, "
    "Iterator, List, Mapping, Optional, Sequence, Set, Sized, SupportsAbs, SupportsInt, "
    "Tuple, Type, Union)\n")

# (expression, group, in_quick).  Every element of a container value is itself
# a listed value up to class (C02 localises a disagreement on a container to one
# on its elements by the class of the element).
C02_VALUES_ALL = [
    # scalars
    ("1", "scalar", 1), ("True", "scalar", 1), ("1.5", "scalar", 1), ("2j", "scalar", 1),
    ("'s'", "scalar", 1), ("b'b'", "scalar", 1), ("None", "none", 1),
    ("bytearray(b'x')", "scalar", 1),
    # instances
    ("A()", "inst", 1), ("B()", "inst", 1), ("C()", "inst", 1), ("D()", "inst", 1),
    ("S()", "inst", 1), ("U()", "inst", 1), ("object()", "inst", 1),
    # classes
    ("A", "class", 1), ("B", "class", 1), ("C", "class", 0), ("D", "class", 1),
    ("int", "class", 1), ("bool", "class", 1), ("str", "class", 0), ("object", "class", 0),
    # empty containers
    ("[]", "empty", 1), ("()", "empty", 1), ("{}", "empty", 1), ("set()", "empty", 1),
    ("frozenset()", "empty", 1),
    # homogeneous containers
    ("[1]", "homo", 1), ("[1, 2]", "homo", 0), ("['s']", "homo", 1), ("[1.5]", "homo", 1),
    ("[True]", "homo", 0), ("[None]", "homo", 1), ("[A()]", "homo", 1), ("[B()]", "homo", 1),
    ("(1,)", "homo", 1), ("(1, 2)", "homo", 1), ("('s', 's')", "homo", 0),
    ("(1, 2, 3)", "homo", 1), ("(B(), D())", "homo", 1),
    ("{1}", "homo", 1), ("{'s'}", "homo", 0), ("frozenset({1})", "homo", 1),
    ("{1: 's'}", "homo", 1), ("{'s': 1}", "homo", 1), ("{1: 2}", "homo", 1),
    ("{'s': A()}", "homo", 0),
    # heterogeneous containers
    ("[1, 's']", "hetero", 1), ("[1, None]", "hetero", 1), ("[1, 1.5]", "hetero", 1),
    ("[A(), C()]", "hetero", 1), ("[A(), B()]", "hetero", 1),
    ("(1, 's')", "hetero", 1), ("('s', 1)", "hetero", 1), ("(1, None)", "hetero", 1),
    ("(A(), 1)", "hetero", 0), ("(1, 's', 1.5)", "hetero", 1),
    ("{1, 's'}", "hetero", 1), ("frozenset({1, 's'})", "hetero", 1),
    ("{1: 's', 's': 1}", "hetero", 1), ("{1: 2, 's': 2}", "hetero", 1),
    ("{1: 2, 2: 's'}", "hetero", 1),
    # nested
    ("[[1]]", "nested", 1), ("[[1, 's']]", "nested", 1), ("[(1, 's')]", "nested", 1),
    ("([1], [1])", "nested", 1), ("{'s': [1]}", "nested", 1), ("{1: (1, 's')}", "nested", 0),
    ("[[]]", "nested", 0), ("([1], 's')", "nested", 0),
    # functions / lambdas / builtins
    ("fn", "callable", 1), ("fn0", "callable", 0), ("(lambda: 1)", "callable", 1),
    ("(lambda x: x)", "callable", 0), ("len", "callable", 1), ("A().__init__", "callable", 1),
    # iterators / ranges
    ("iter([1])", "iter", 1), ("iter(['s'])", "iter", 0), ("gen()", "iter", 1),
    ("range(3)", "range", 1),
]


def c02_values(tier):
  return [v for v, _, q in C02_VALUES_ALL if q or tier != "quick"]


C02_LEAVES = ["int", "float", "complex", "str", "bytes", "bool", "None", "object", "Any",
              "A", "B", "C", "D"]
# leaves put under unary constructors in the quick tier
C02_LEAVES_QUICK = ["int", "float", "str", "bool", "None", "object", "Any", "A", "B"]
C02_BARE = ["list", "dict", "tuple", "type", "Hashable", "Sized", "SupportsInt", "SupportsAbs",
            "Callable[..., Any]", "Tuple[()]"]
C02_UNARY = ["Optional", "List", "Set", "FrozenSet", "Sequence", "Iterable", "Collection",
             "Iterator", "Type", "Tuple[{}, ...]"]
# binary forms: {0} and {1} are filled with leaves / sub-annotations
C02_BINARY = ["Union[{0}, {1}]", "Dict[{0}, {1}]", "Tuple[{0}, {1}]", "Mapping[{0}, {1}]",
              "Callable[[{0}], {1}]"]


def _un(form, t):
  return form.format(t) if "{}" in form else f"{form}[{t}]"


# pairs of leaves used for binary constructors at depth 1 (a full square would
# be 169 per constructor; these cover same/different/subclass/promotion/top)
C02_PAIRS = [("int", "str"), ("str", "int"), ("int", "float"), ("bool", "str"),
             ("str", "A"), ("A", "C"), ("int", "None"), ("object", "int"),
             # thorough only from here
             ("int", "int"), ("B", "C"), ("str", "Any"), ("float", "complex"), ("bytes", "str"),
             ("A", "B")]
C02_PAIRS_QUICK = 8


# ---------------------------------------------------------------------------
# C02 targeted depth-2 slice (both tiers): homogeneous views whose element type
# X is itself parameterised, against container values of 2-3 elements in every
# order of (conforming, non-conforming-inner) elements.  The class of an element
# (`list`, `dict`, `tuple`, `set`) is the same for the conforming and the
# non-conforming one; only the instance's own parameters differ, so any
# shortcut that judges an element by its class alone shows up here.

# X -> (conforming, second conforming, non-conforming inner, second non-conforming, hashable)
C02_NESTED_ELEMS = {
    "List[int]": ("[1]", "[2]", "['s']", "[None]", False),
    "Dict[str, int]": ("{'a': 1}", "{'b': 2}", "{'b': 's'}", "{1: 2}", False),
    "Tuple[int, str]": ("(1, 's')", "(2, 't')", "('s', 1)", "(1, 2)", True),
    "Set[str]": ("{'s'}", "{'t'}", "{1}", "{None}", False),
    "Optional[List[int]]": ("[1]", "None", "['s']", "[1.5]", False),
}
# orders: c = conforming, d = second conforming, b = bad, e = second bad
C02_NESTED_ORDERS = ["cb", "bc", "cd", "be", "cdb", "cbd", "bcd"]


def _nested_value(outer, elems):
  if outer == "tuple":
    return "(" + ", ".join(elems) + ")"
  if outer == "list":
    return "[" + ", ".join(elems) + "]"
  if outer == "set":
    return "{" + ", ".join(elems) + "}"
  if outer == "frozenset":
    return "frozenset({" + ", ".join(elems) + "})"
  keys = ["'k'", "'j'", "'i'"]
  return "{" + ", ".join(f"{k}: {e}" for k, e in zip(keys, elems)) + "}"


def c02_nested_slice():
  """[(annotation, value)] of the targeted depth-2 slice."""
  views = [  # (annotation form, outer containers whose values are posed against it)
      ("Tuple[{}, ...]", ["tuple"]),
      ("Sequence[{}]", ["tuple", "list"]),
      ("Iterable[{}]", ["tuple", "list", "set", "frozenset"]),
      ("Collection[{}]", ["tuple", "list"]),
      ("List[{}]", ["list"]),
      ("Set[{}]", ["set"]),
      ("FrozenSet[{}]", ["frozenset"]),
      ("Dict[str, {}]", ["dict"]),
      ("Mapping[str, {}]", ["dict"]),
  ]
  out = []
  for x, (c, d, b, e, hashable) in C02_NESTED_ELEMS.items():
    pick = {"c": c, "d": d, "b": b, "e": e}
    # the element pairs themselves, so that localisation finds them in the table
    for el in (c, d, b, e):
      out.append((x, el))
    for form, outers in views:
      for outer in outers:
        if outer in ("set", "frozenset") and not hashable:
          continue
        for order in C02_NESTED_ORDERS:
          out.append((form.format(x), _nested_value(outer, [pick[o] for o in order])))
  seen, res = set(), []
  for p in out:
    if p not in seen:
      seen.add(p)
      res.append(p)
  return res


# ---------------------------------------------------------------------------
# C02 "twin constant" modules (both tiers): small modules with a FIXED order of
# cases whose value literals compare equal but differ in element type
# ((1, 2) == (1.0, 2.0), (True, False) == (1, 0)); anything that memoises the
# conversion of a constant by value makes the first literal decide the type of
# the second.  Each inner list is analysed as one module, in this order.


def c02_twin_modules():
  t_ii, t_ff, t_bb = "Tuple[int, int]", "Tuple[float, float]", "Tuple[bool, bool]"
  n_i, n_f = "Tuple[Tuple[int, int], str]", "Tuple[Tuple[float, float], str]"
  l_i, l_f = "List[Tuple[int, int]]", "List[Tuple[float, float]]"
  d_i = "Dict[str, Tuple[int, int]]"
  return [
      [(t_ii, "(1, 2)"), (t_ii, "(1.0, 2.0)"), (t_ff, "(1.0, 2.0)"), (t_ff, "(1, 2)")],
      [(t_ff, "(1.0, 2.0)"), (t_ii, "(1, 2)"), (t_ii, "(1.0, 2.0)")],
      [(t_bb, "(True, False)"), (t_bb, "(1, 0)"), (t_ii, "(1, 0)")],
      [(t_ii, "(1, 0)"), (t_bb, "(True, False)"), (t_bb, "(1, 0)")],
      [(t_ii, "(1, 2)"), (t_ii, "(1, 2.0)"), (t_ii, "(1.0, 2)")],
      [(n_i, "((1, 2), 's')"), (n_i, "((1.0, 2.0), 's')")],
      [(n_f, "((1.0, 2.0), 's')"), (n_i, "((1, 2), 's')")],
      [(l_i, "[(1, 2)]"), (l_i, "[(1.0, 2.0)]")],
      [(l_f, "[(1.0, 2.0)]"), (l_i, "[(1, 2)]")],
      [(d_i, "{'k': (1, 2)}"), (d_i, "{'k': (1.0, 2.0)}")],
      [("Tuple[Tuple[int, int], Tuple[int, int]]", "((1, 2), (1.0, 2.0))"),
       ("Tuple[Tuple[float, float], Tuple[int, int]]", "((1.0, 2.0), (1, 2))")],
      [("int", "1"), ("int", "1.0"), ("int", "True"), ("bool", "1"), ("bool", "True"),
       ("float", "1.0"), ("float", "1"), ("complex", "1.0")],
      [("FrozenSet[int]", "frozenset({1, 2})"), ("FrozenSet[int]", "frozenset({1.0, 2.0})")],
  ]


# ---------------------------------------------------------------------------
# C02 slice "Optional / Union above a parameterised container" (both tiers):
# heterogeneous list / dict / set literals in both orders (conforming element
# first, non-conforming first) against the wrapped and the bare container type.

def c02_union_container_slice():
  inner = {
      "List[int]": ["[1, 's']", "['s', 1]", "[1, 2]", "[1, 2, 's']", "[[1], ['s']]"],
      "Dict[str, int]": ["{'a': 1, 'b': 's'}", "{'a': 's', 'b': 1}", "{'a': 1, 'b': 2}",
                         "{'a': 1, 2: 2}"],
      "Sequence[A]": ["[B(), C()]", "[C(), B()]", "[A(), B()]", "(B(), C())"],
      "Set[int]": ["{1, 's'}", "{'s', 1}", "{1, 2}"],
      "Iterable[int]": ["[1, 's']", "['s', 1]", "(1, 's')"],
      "List[List[int]]": ["[[1], ['s']]", "[['s'], [1]]", "[[1], [2]]"],
      "Mapping[str, int]": ["{'a': 1, 'b': 's'}", "{'a': 's', 'b': 1}"],
  }
  wrappers = ["Optional[{}]", "Union[{}, str]", "Union[str, {}]", "Union[None, int, {}]"]
  out = []
  for t, vals in inner.items():
    for v in vals + ["None", "'s'"]:
      out.append((t, v))
      for w in wrappers:
        out.append((w.format(t), v))
  seen, res = set(), []
  for p in out:
    if p not in seen:
      seen.add(p)
      res.append(p)
  return res


def c02_annotations(tier: str):
  """Depth-bounded annotation texts: quick = depth <= 1 over a leaf subset,
  thorough = depth <= 1 over all leaves plus depth 2."""
  quick = tier == "quick"
  d0 = list(C02_LEAVES) + list(C02_BARE)
  d1 = []
  for form in C02_UNARY:
    for t in (C02_LEAVES_QUICK if quick else C02_LEAVES):
      if form == "Type" and t == "None":
        continue
      if form == "Optional" and t in ("None",):
        continue
      d1.append(_un(form, t))
  for form in C02_BINARY:
    for a, b in (C02_PAIRS[:C02_PAIRS_QUICK] if quick else C02_PAIRS):
      if form.startswith("Union") and a == b:
        continue
      d1.append(form.format(a, b))
  if quick:
    return d0 + d1
  # depth 2: constructors over a selection of depth-1 annotations
  inner = [
      "Optional[int]", "Union[int, str]", "List[int]", "List[bool]", "List[A]",
      "Dict[str, int]", "Tuple[int, str]", "Tuple[int, ...]", "Sequence[int]",
      "Collection[int]", "Iterable[int]", "Type[A]", "Hashable", "Callable[..., Any]",
  ]
  d2 = []
  for form in C02_UNARY:
    if form == "Type":
      continue
    for t in inner:
      if form == "Optional" and t.startswith("Optional"):
        continue
      d2.append(_un(form, t))
  small = ["int", "None"]
  for form in C02_BINARY:
    if form.startswith(("Callable", "Mapping")):
      continue
    for t in inner:
      for s in small:
        d2.append(form.format(t, s))
        d2.append(form.format(s, t))
  seen, out = set(), []
  for a in d0 + d1 + d2:
    if a not in seen:
      seen.add(a)
      out.append(a)
  return out
