"""Ground value / expression grammar shared by C14 and C02.

A *ground value* is an expression whose run-time value is fully known: a
literal, a display of literals, a builtin object, or an instance of one of the
generated classes below.  Every entry carries the label of its run-time class
(`cls`), whether that class is a builtin (`builtin`), and - for C02 - nothing
else: the oracle there inspects the real value obtained by `eval`.

Nothing here depends on pytype.
"""
from __future__ import annotations

import dataclasses

# ---------------------------------------------------------------------------
# C14: classes with / without dunders.  No annotations anywhere: an annotation
# is a declaration CPython does not enforce, which would blur the oracle.

C14_CLASSES = '''\
class P:
  ca = 1
  def __init__(self):
    self.ia = 'a'
  def m(self):
    return 1
  @property
  def p(self):
    return 1.5
class Add:
  def __add__(self, o):
    return 1
class RAdd:
  def __radd__(self, o):
    return 'a'
class SubAdd(Add):
  def __add__(self, o):
    return 1.5
class SubR(Add):
  def __radd__(self, o):
    return 'a'
class Arith:
  def __add__(self, o):
    return 1
  def __sub__(self, o):
    return 1
  def __mul__(self, o):
    return 1
  def __truediv__(self, o):
    return 1.5
  def __rsub__(self, o):
    return 1
  def __rmul__(self, o):
    return 'a'
class Neg:
  def __neg__(self):
    return 1
class GetItem:
  def __getitem__(self, k):
    return k
class Call:
  def __call__(self, *a):
    return 1
class Call0:
  def __call__(self):
    return 1
class GA:
  def __getattr__(self, name):
    return 1
class NI:
  def __add__(self, o):
    return NotImplemented
  def __rsub__(self, o):
    return NotImplemented
class MyInt(int):
  pass
class MyList(list):
  pass
'''

# named constants for the constant-foldable operands: CPython folds `1 + 1.5`
# at compile time, so the literal spelling never reaches pytype's operator
# dispatch when it succeeds; the named spelling does.
C14_NAMED = '''\
k_int = 1
k_bool = True
k_float = 1.5
k_complex = 2j
k_str = 'a'
k_bytes = b'b'
k_none = None
k_ellipsis = ...
k_tuple = (1, 'a')
'''


@dataclasses.dataclass(frozen=True)
class Val:
  expr: str          # source text (self-delimiting: safe as an operand)
  cls: str           # label of the run-time class
  builtin: bool      # run-time class is a builtin (the converse clause of C14 only covers these + user instances)
  group: str         # scalar | container | nested | object | user | derived
  named: str = ""    # name of the constant holding the same value (foldable literals only)
  instance: bool = True   # a data instance (not a class object / builtin function)


def _v(expr, cls, builtin, group, named="", instance=True):
  return Val(expr, cls, builtin, group, named, instance)


C14_VALUES = [
    _v("1", "int", True, "scalar", "k_int"),
    _v("True", "bool", True, "scalar", "k_bool"),
    _v("1.5", "float", True, "scalar", "k_float"),
    _v("2j", "complex", True, "scalar", "k_complex"),
    _v("'a'", "str", True, "scalar", "k_str"),
    _v("b'b'", "bytes", True, "scalar", "k_bytes"),
    _v("None", "NoneType", True, "scalar", "k_none"),
    _v("[1]", "list", True, "container"),
    _v("(1, 'a')", "tuple", True, "container", "k_tuple"),
    _v("{1: 2}", "dict", True, "container"),
    _v("{1}", "set", True, "container"),
    _v("frozenset({1})", "frozenset", True, "container"),
    _v("range(3)", "range", True, "container"),
    _v("bytearray(b'x')", "bytearray", True, "container"),
    _v("...", "ellipsis", True, "object", "k_ellipsis"),
    _v("NotImplemented", "NotImplementedType", True, "object"),
    _v("len", "builtin_function", True, "object", instance=False),
    _v("int", "type", True, "object", instance=False),
    # nested / heterogeneous containers
    _v("[[1]]", "list", True, "nested"),
    _v("[1, 'a']", "list", True, "nested"),
    _v("{'k': [1]}", "dict", True, "nested"),
    _v("([1], {1})", "tuple", True, "nested"),
    _v("[(1, 'a')]", "list", True, "nested"),
    _v("{'k': 1}", "dict", True, "nested"),
    # instances of generated classes
    _v("P()", "P", False, "user"),
    _v("Add()", "Add", False, "user"),
    _v("RAdd()", "RAdd", False, "user"),
    _v("SubAdd()", "SubAdd", False, "user"),
    _v("SubR()", "SubR", False, "user"),
    _v("Arith()", "Arith", False, "user"),
    _v("Neg()", "Neg", False, "user"),
    _v("GetItem()", "GetItem", False, "user"),
    _v("Call()", "Call", False, "user"),
    _v("Call0()", "Call0", False, "user"),
    _v("GA()", "GA", False, "user"),
    _v("NI()", "NI", False, "user"),
    _v("MyInt(3)", "MyInt", False, "user"),
    _v("MyList([1])", "MyList", False, "user"),
]

# Two-level operands (thorough tier): clean one-level expressions over the
# grammar.  Elements drawn out of a *heterogeneous* list/dict are deliberately
# not used: pytype models list elements as one joined type, which is outside
# "operands are literals or instances".
C14_DERIVED = [
    _v("len('a')", "int", True, "derived"),
    _v("str(1)", "str", True, "derived"),
    _v("[1][0]", "int", True, "derived"),
    _v("(1, 'a')[1]", "str", True, "derived"),
    _v("{1: 2}[1]", "int", True, "derived"),
    _v("'a'.upper()", "str", True, "derived"),
    _v("([1] + [2])", "list", True, "derived"),
    _v("((1,) * 2)", "tuple", True, "derived"),
    _v("(-Neg())", "int", True, "derived"),
    _v("(Add() + 1)", "int", True, "derived"),
    _v("(1 + RAdd())", "str", True, "derived"),
    _v("P().m()", "int", True, "derived"),
    _v("P().ca", "int", True, "derived"),
    _v("P().ia", "str", True, "derived"),
    _v("P().p", "float", True, "derived"),
    _v("Call()()", "int", True, "derived"),
    _v("GetItem()['k']", "str", True, "derived"),
    _v("GA().x", "int", True, "derived"),
    _v("int('1')", "int", True, "derived"),
    _v("float(1)", "float", True, "derived"),
    _v("list('a')", "list", True, "derived"),
    _v("dict()", "dict", True, "derived"),
    _v("[]", "list", True, "derived"),
    _v("{}", "dict", True, "derived"),
    _v("()", "tuple", True, "derived"),
    _v("set()", "set", True, "derived"),
    _v("abs(-1.5)", "float", True, "derived"),
    _v("(1.5).is_integer()", "bool", True, "derived"),
    _v("b'b'.decode()", "str", True, "derived"),
    _v("'a'.encode()", "bytes", True, "derived"),
]

BASIC_BINOPS = ["+", "-", "*", "/"]
MORE_BINOPS = ["//", "%", "**", "@", "<<", ">>", "&", "|", "^", "<", "<=", "==", "in"]
UNARY = ["-", "+", "~"]
SUBSCRIPTS = [("0", "int"), ("'k'", "str"), ("None", "NoneType"), ("1.0", "float"),
              ("0:1", "slice")]
ATTRS = [
    # existing on some builtin, missing on most
    "real", "imag", "bit_length", "is_integer", "conjugate", "upper", "join", "decode",
    "encode", "append", "sort", "pop", "copy", "keys", "items", "add", "union", "count",
    "index", "start", "hex", "clear",
    # generic / dunder
    "__len__", "__class__", "__doc__", "__name__", "__add__", "__hash__",
    # user-class names
    "ca", "ia", "m", "p",
    # missing everywhere
    "foo", "Upper", "__nope__",
]


# ---------------------------------------------------------------------------
# C02: class hierarchy + value expressions.

C02_CLASSES = '''\
class A:
  pass
class B(A):
  pass
class C:
  pass
class D(B, C):
  pass
class S:
  def __len__(self):
    return 0
  def __int__(self):
    return 0
  def __abs__(self):
    return 0
class U:
  __hash__ = None
  def __eq__(self, o):
    return self is o
def fn(x):
  return x
def fn0():
  return 1
def gen():
  yield 1
'''

C02_TYPING_IMPORT = (
    "from typing import (Any, Callable, Collection, Dict, FrozenSet, Hashable, Iterable, "
    "Iterator, List, Mapping, Optional, Sequence, Set, Sized, SupportsAbs, SupportsInt, "
    "Tuple, Type, Union)\n")

# (expression, group).  Every element of a container value is itself a listed
# value (C02 localises a disagreement on a container to one on its elements).
C02_VALUES = [
    # scalars
    ("1", "scalar"), ("True", "scalar"), ("1.5", "scalar"), ("2j", "scalar"),
    ("'s'", "scalar"), ("b'b'", "scalar"), ("None", "none"),
    # instances
    ("A()", "inst"), ("B()", "inst"), ("C()", "inst"), ("D()", "inst"),
    ("S()", "inst"), ("U()", "inst"), ("object()", "inst"),
    # classes
    ("A", "class"), ("B", "class"), ("C", "class"), ("D", "class"),
    ("int", "class"), ("bool", "class"), ("str", "class"), ("object", "class"),
    # empty containers
    ("[]", "empty"), ("()", "empty"), ("{}", "empty"), ("set()", "empty"),
    ("frozenset()", "empty"),
    # homogeneous containers
    ("[1]", "homo"), ("[1, 2]", "homo"), ("['s']", "homo"), ("[1.5]", "homo"),
    ("[True]", "homo"), ("[None]", "homo"), ("[A()]", "homo"), ("[B()]", "homo"),
    ("(1,)", "homo"), ("(1, 2)", "homo"), ("('s', 's')", "homo"), ("(1, 2, 3)", "homo"),
    ("(B(), D())", "homo"),
    ("{1}", "homo"), ("{'s'}", "homo"), ("frozenset({1})", "homo"),
    ("{1: 's'}", "homo"), ("{'s': 1}", "homo"), ("{1: 2}", "homo"), ("{'s': A()}", "homo"),
    # heterogeneous containers
    ("[1, 's']", "hetero"), ("[1, None]", "hetero"), ("[1, 1.5]", "hetero"),
    ("[A(), C()]", "hetero"), ("[A(), B()]", "hetero"),
    ("(1, 's')", "hetero"), ("('s', 1)", "hetero"), ("(1, None)", "hetero"),
    ("(A(), 1)", "hetero"), ("(1, 's', 1.5)", "hetero"),
    ("{1, 's'}", "hetero"), ("frozenset({1, 's'})", "hetero"),
    ("{1: 's', 's': 1}", "hetero"), ("{1: 2, 's': 2}", "hetero"), ("{1: 2, 2: 's'}", "hetero"),
    # nested
    ("[[1]]", "nested"), ("[[1, 's']]", "nested"), ("[(1, 's')]", "nested"),
    ("([1], [1])", "nested"), ("{'s': [1]}", "nested"), ("{1: (1, 's')}", "nested"),
    ("[[]]", "nested"), ("([1], 's')", "nested"),
    # functions / lambdas / builtins
    ("fn", "callable"), ("fn0", "callable"), ("(lambda: 1)", "callable"),
    ("(lambda x: x)", "callable"), ("len", "callable"), ("A().__init__", "callable"),
    # iterators / ranges / misc
    ("iter([1])", "iter"), ("iter(['s'])", "iter"), ("gen()", "iter"),
    ("range(3)", "range"), ("bytearray(b'x')", "scalar"),
]

C02_LEAVES = ["int", "float", "complex", "str", "bytes", "bool", "None", "object", "Any",
              "A", "B", "C", "D"]
C02_BARE = ["list", "dict", "tuple", "type", "Hashable", "Sized", "SupportsInt", "SupportsAbs",
            "Callable[..., Any]", "Tuple[()]"]
C02_UNARY = ["Optional", "List", "Set", "FrozenSet", "Sequence", "Iterable", "Collection",
             "Iterator", "Type", "Tuple[{}, ...]"]
# binary forms: {0} and {1} are filled with leaves / sub-annotations
C02_BINARY = ["Union[{0}, {1}]", "Dict[{0}, {1}]", "Tuple[{0}, {1}]", "Mapping[{0}, {1}]",
              "Callable[[{0}], {1}]"]


def _un(form, t):
  return form.format(t) if "{}" in form else f"{form}[{t}]"


# pairs of leaves used for binary constructors at depth 1 (a full square would
# be 169 per constructor; these cover same/different/subclass/promotion/top)
C02_PAIRS = [("int", "str"), ("str", "int"), ("int", "int"), ("int", "float"), ("bool", "str"),
             ("str", "A"), ("A", "C"), ("B", "C"), ("int", "None"), ("str", "Any"),
             ("object", "int"), ("float", "complex"), ("bytes", "str"), ("A", "B")]


def c02_annotations(depth: int):
  """Depth-bounded annotation texts.  depth 0 = leaves+bare, 1 = one constructor."""
  d0 = list(C02_LEAVES) + list(C02_BARE)
  if depth == 0:
    return d0
  d1 = []
  for form in C02_UNARY:
    for t in C02_LEAVES:
      if form == "Type" and t == "None":
        continue
      if form == "Optional" and t in ("None",):
        continue
      d1.append(_un(form, t))
  for form in C02_BINARY:
    for a, b in C02_PAIRS:
      if form.startswith("Union") and a == b:
        continue
      d1.append(form.format(a, b))
  if depth == 1:
    return d0 + d1
  # depth 2: constructors over a selection of depth-1 annotations
  inner = [
      "Optional[int]", "Optional[A]", "Union[int, str]", "Union[A, C]", "List[int]", "List[A]",
      "List[bool]", "Set[int]", "Dict[str, int]", "Tuple[int, str]", "Tuple[int, ...]",
      "Tuple[()]", "Sequence[int]", "Iterable[int]", "Collection[int]", "Mapping[str, int]",
      "Iterator[int]", "Type[A]", "Callable[..., Any]", "Callable[[int], str]", "Hashable",
      "Sized", "SupportsInt", "list", "tuple", "dict", "type",
  ]
  d2 = []
  for form in C02_UNARY:
    if form == "Type":
      continue
    for t in inner:
      if form == "Optional" and t.startswith("Optional"):
        continue
      d2.append(_un(form, t))
  small = ["int", "str", "A", "None"]
  for form in C02_BINARY:
    for t in inner:
      for s in small:
        if form.startswith("Callable"):
          continue
        d2.append(form.format(t, s))
        d2.append(form.format(s, t))
  seen, out = set(), []
  for a in d0 + d1 + d2:
    if a not in seen:
      seen.add(a)
      out.append(a)
  return out
