"""C13: signature / call-shape specifications, renderers and enumerators.

Signature (JSON-able):
  {"po": [d, ...], "pk": [d, ...], "ko": [d, ...], "va": bool, "kw": bool}
  d = 1 when the parameter has a default.  Names: positional-only a0,a1,..;
  positional-or-keyword b0,..; keyword-only c0,..; *va; **kw.
Call (JSON-able):
  {"npos": n, "kws": [name, ...], "star": m | None, "dstar": [name, ...] | None}
  rendered  f(<n positional literals>, *(<m star items>), <kw>=K_<kw>(), **{'<n>': Q_<n>()})
Every argument has a type of its own, so the type seen in a parameter tells
which argument was bound to it:
  positional #k -> POS[k] (int, str, float, bytes, complex, then P5(), P6(), ...)
  star item #k  -> S<k>;  keyword x -> K_x;  map entry x -> Q_x;  default of x -> D_x
Unknown keyword names are z, y.  Keyword names are drawn from parameter names, the names
of the callee's own *va / **kw parameters (`va=K_va()`, `kw=K_kw()`) and unknown names.
Nothing here imports pytype.
"""
from __future__ import annotations

import itertools

KINDS = ["func", "method", "classmethod", "staticmethod", "init", "lambda",
         # constructor kinds: the object is really constructed; it carries the parameters in .r
         "new", "new_inh1", "new_inh2", "init_inh1", "init_inh2", "new_init"]
CTOR_KINDS = KINDS[6:]
POS_LITERALS = [("1", "int"), ("'s'", "str"), ("2.0", "float"), ("b''", "bytes"), ("3j", "complex")]
UNKNOWN = ["z", "y"]


def po_names(sig):
  return [f"a{i}" for i in range(len(sig["po"]))]


def pk_names(sig):
  return [f"b{i}" for i in range(len(sig["pk"]))]


def ko_names(sig):
  return [f"c{i}" for i in range(len(sig["ko"]))]


def param_names(sig):
  """All names in result-tuple order."""
  out = po_names(sig) + pk_names(sig)
  if sig["va"]:
    out.append("va")
  out += ko_names(sig)
  if sig["kw"]:
    out.append("kw")
  return out


def named_params(sig):
  return po_names(sig) + pk_names(sig) + ko_names(sig)


def star_names(sig):
  """Names of the *args / **kwargs parameters; a keyword argument may be spelled like them."""
  return (["va"] if sig["va"] else []) + (["kw"] if sig["kw"] else [])


def keyword_name_pool(sig, unknown=1):
  """Names a call may use as keywords: parameters, the star parameters' own names, unknown names."""
  return named_params(sig) + star_names(sig) + UNKNOWN[:unknown]


def has_default(sig, name):
  grp = {"a": "po", "b": "pk", "c": "ko"}[name[0]]
  return bool(sig[grp][int(name[1:])])


def valid(sig):
  seen_default = False
  for d in sig["po"] + sig["pk"]:
    if d:
      seen_default = True
    elif seen_default:
      return False
  return True


def params_text(sig):
  parts = []
  for n in po_names(sig):
    parts.append(f"{n}=D_{n}()" if has_default(sig, n) else n)
  if sig["po"]:
    parts.append("/")
  for n in pk_names(sig):
    parts.append(f"{n}=D_{n}()" if has_default(sig, n) else n)
  if sig["va"]:
    parts.append("*va")
  elif sig["ko"]:
    parts.append("*")
  for n in ko_names(sig):
    parts.append(f"{n}=D_{n}()" if has_default(sig, n) else n)
  if sig["kw"]:
    parts.append("**kw")
  return ", ".join(parts)


def result_text(sig):
  names = param_names(sig)
  if not names:
    return "()"
  if len(names) == 1:
    return f"({names[0]},)"
  return "(" + ", ".join(names) + ")"


def sig_skeleton(sig):
  """Kind vector as text: names dropped, R = required, D = has a default."""
  def grp(g):
    return "".join("D" if d else "R" for d in sig[g]) or "-"
  return (f"po={grp('po')} pk={grp('pk')} ko={grp('ko')}"
          f"{' *va' if sig['va'] else ''}{' **kw' if sig['kw'] else ''}")


def call_skeleton(call):
  s = f"{call['npos']} positional"
  if call.get("star") is not None:
    s += f" + *seq of {call['star']}"
  if call["kws"]:
    s += " + keywords " + ",".join(call["kws"])
  if call.get("dstar") is not None:
    s += " + **map{" + ",".join(call["dstar"]) + "}"
  return s


def pos_literal(k):
  if k < len(POS_LITERALS):
    return POS_LITERALS[k]
  return (f"P{k}()", f"P{k}")


def args_text(call):
  parts = [pos_literal(k)[0] for k in range(call["npos"])]
  if call.get("star") is not None:
    items = "".join(f"S{k}(), " for k in range(call["star"]))
    parts.append(f"*({items})")
  for n in call["kws"]:
    parts.append(f"{n}=K_{n}()")
  if call.get("dstar") is not None:
    items = ", ".join(f"'{n}': Q_{n}()" for n in call["dstar"])
    parts.append("**{" + items + "}")
  return ", ".join(parts)


def marker_names(sigs_calls):
  """Marker classes a module needs."""
  names = set()
  for sig, calls in sigs_calls:
    for n in named_params(sig):
      if has_default(sig, n):
        names.add(f"D_{n}")
    for c in calls:
      for k in range(len(POS_LITERALS), c["npos"]):
        names.add(f"P{k}")
      for k in range(c.get("star") or 0):
        names.add(f"S{k}")
      for n in c["kws"]:
        names.add(f"K_{n}")
      for n in c.get("dstar") or []:
        names.add(f"Q_{n}")
  return sorted(names)


def callee_text(kind, sig, k):
  """(definition lines, call-expression template with {args})."""
  P = params_text(sig)
  R = result_text(sig)
  if kind == "func":
    return [f"def f{k}({P}):", f"  return {R}"], f"f{k}({{args}})"
  if kind == "lambda":
    return [f"f{k} = lambda {P}: {R}"], f"f{k}({{args}})"
  sp = (", " + P) if P else ""
  if kind == "method":
    return [f"class T{k}:", f"  def m(self{sp}):", f"    return {R}"], f"T{k}().m({{args}})"
  if kind == "classmethod":
    return [f"class T{k}:", "  @classmethod", f"  def m(cls{sp}):", f"    return {R}"], f"T{k}.m({{args}})"
  if kind == "staticmethod":
    return [f"class T{k}:", "  @staticmethod", f"  def m({P}):", f"    return {R}"], f"T{k}.m({{args}})"
  if kind == "init":
    return [f"class T{k}:", f"  def __init__(self{sp}):", f"    self.r = {R}"], f"T{k}({{args}}).r"
  new_def = [f"  def __new__(cls{sp}):", "    o = object.__new__(cls)", f"    o.r = {R}", "    return o"]
  init_def = [f"  def __init__(self{sp}):", f"    self.r = {R}"]
  call = f"T{k}({{args}}).r"
  if kind == "new":
    return [f"class T{k}:"] + new_def, call
  if kind == "new_init":
    # both with the same signature; __new__ leaves its view in .rn, __init__ the one that is read
    both = [f"  def __new__(cls{sp}):", "    o = object.__new__(cls)", f"    o.rn = {R}", "    return o"] + init_def
    return [f"class T{k}:"] + both, call
  if kind in ("new_inh1", "init_inh1"):
    body = new_def if kind.startswith("new") else init_def
    return [f"class B{k}:"] + body + [f"class T{k}(B{k}): pass"], call
  if kind in ("new_inh2", "init_inh2"):
    body = new_def if kind.startswith("new") else init_def
    return [f"class B{k}:"] + body + [f"class I{k}(B{k}): pass", f"class T{k}(I{k}): pass"], call
  raise ValueError(kind)


# --------------------------------------------------------------------------
# enumeration


def _default_vectors(n):
  return [list(t) for t in itertools.product([0, 1], repeat=n)]


def enumerate_signatures(max_per_kind):
  out = []
  groups = [v for n in range(max_per_kind + 1) for v in _default_vectors(n)]
  for po in groups:
    for pk in groups:
      for ko in groups:
        for va in (False, True):
          for kw in (False, True):
            s = {"po": po, "pk": pk, "ko": ko, "va": va, "kw": kw}
            if valid(s):
              out.append(s)
  return out


def enumerate_calls(sig, max_kw=3, extra_pos=1, unknown=1, max_kw_with_star=2):
  """All call shapes: 0..(#positional params + extra_pos) positional arguments (one more
  when *va exists) x keyword-name subsets of size <= max_kw over parameter names + the
  callee's own star-parameter names (va, kw) + unknown.  Subsets that use a star-parameter
  name are limited to size <= max_kw_with_star (budget)."""
  npos_max = len(sig["po"]) + len(sig["pk"]) + extra_pos + (1 if sig["va"] else 0)
  names = keyword_name_pool(sig, unknown)
  stars = set(star_names(sig))
  out = []
  for n in range(npos_max + 1):
    for k in range(0, min(max_kw, len(names)) + 1):
      for sub in itertools.combinations(names, k):
        if k > max_kw_with_star and stars.intersection(sub):
          continue
        out.append({"npos": n, "kws": list(sub), "star": None, "dstar": None})
  return out


def star_variants(rng, sig, call):
  """Moves part of a plain call into *seq / **map (literal contents)."""
  c = dict(call)
  r = rng.random()
  if r < 0.45 and call["npos"] > 0:
    m = rng.randint(0, call["npos"])
    c["npos"] = call["npos"] - m
    c["star"] = m
  elif r < 0.55:
    c["star"] = 0
  if rng.random() < 0.55 and call["kws"]:
    m = rng.randint(0, len(call["kws"]))
    kws = list(call["kws"])
    rng.shuffle(kws)
    c["dstar"] = sorted(kws[:m])
    c["kws"] = [n for n in call["kws"] if n not in c["dstar"]]
  elif rng.random() < 0.1:
    c["dstar"] = []
  if c.get("star") is None and c.get("dstar") is None:
    c["star"] = 0
  return c


def random_signature(rng, max_per_kind=3):
  while True:
    def grp():
      n = rng.choice([0, 1, 1, 2, 2, 3][:max_per_kind * 2])
      return [rng.randint(0, 1) for _ in range(n)]
    po, pk = grp(), grp()
    # repair default order instead of rejecting (keeps the distribution broad)
    seq = po + pk
    first = next((i for i, d in enumerate(seq) if d), None)
    if first is not None:
      seq = seq[:first] + [1] * (len(seq) - first)
    s = {"po": seq[:len(po)], "pk": seq[len(po):], "ko": grp(),
         "va": rng.random() < 0.45, "kw": rng.random() < 0.45}
    if valid(s):
      return s


def random_call(rng, sig, max_pos=5, max_kw=3):
  npp = len(sig["po"]) + len(sig["pk"])
  n = rng.choice([npp, npp, max(0, npp - 1), npp + 1, rng.randint(0, max_pos), len(sig["po"])])
  n = min(n, max_pos + 2)
  names = keyword_name_pool(sig, len(UNKNOWN))
  k = rng.randint(0, min(max_kw, len(names)))
  # bias towards the names that are still unfilled after n positionals
  rest = [x for x in named_params(sig)[n:]] if n <= npp else ko_names(sig)
  sub = set()
  for _ in range(k):
    r = rng.random()
    if star_names(sig) and r < 0.15:
      sub.add(rng.choice(star_names(sig)))
    elif rest and r < 0.7:
      sub.add(rng.choice(rest))
    else:
      sub.add(rng.choice(names))
  return {"npos": n, "kws": sorted(sub), "star": None, "dstar": None}


def argument_types_key(call):
  """What pytype's repeat-call cache sees: positional argument types in order (plain and
  *seq items alike) and keyword -> type (plain and **map alike).  `f(1)`, `f(1, *())` and
  `f(1, **{})` have the same key."""
  pos = [pos_literal(k)[1] for k in range(call["npos"])] + [f"S{k}" for k in range(call.get("star") or 0)]
  kws = sorted([(n, f"K_{n}") for n in call["kws"]] + [(n, f"Q_{n}") for n in (call.get("dstar") or [])])
  return repr((pos, kws))


# kinds whose parameters are read from an attribute that __new__ sets on the instance
NEW_CARRIER_KINDS = ("new", "new_inh1", "new_inh2")
