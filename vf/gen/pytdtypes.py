"""Seeded generator of pytd units (as .pyi text) over a small class hierarchy, aimed at
optimize.Optimize (C11).

Hierarchy: A, B(A), C(A), D(B, C), E  + int/float/str/bytes/bool/None/complex.
Type shapes: unions (nested, duplicated, with Any / object / nothing / None, long),
generics nested two deep, tuple[...] of mixed arities with and without the
homogeneous form, callables of mixed arities, type[...], a TypeVar, a few Literals
and typing ABCs.  Declarations: constants, overloaded functions whose signatures
are identical / differ only in the return type / only in exceptions / only in one
parameter / become identical only after simplification / have mutated parameters,
star-args, keyword-only and optional parameters, and classes with attributes,
methods and a Generic class whose `self` is parameterised.
"""
from __future__ import annotations

import random

IMPORTS = """from typing import (Any, Callable, Generic, Iterable, Literal, Mapping, Optional,
                    Sequence, TypeVar, Union)
T = TypeVar('T')
T2 = TypeVar('T2')
"""

# The same five names with different inheritance relations (name -> bases), each listed
# in definition order.  Variant 0 is the hierarchy of the design.
HIERARCHIES = [
    [("A", ()), ("B", ("A",)), ("C", ("A",)), ("D", ("B", "C")), ("E", ())],
    [("A", ()), ("B", ()), ("C", ()), ("D", ()), ("E", ())],                   # all unrelated
    [("A", ()), ("B", ("A",)), ("C", ()), ("D", ()), ("E", ())],               # only B(A)
    [("B", ()), ("A", ("B",)), ("C", ()), ("D", ("C",)), ("E", ())],           # A(B): swapped
    [("A", ()), ("B", ("A",)), ("C", ("B",)), ("D", ("C",)), ("E", ("D",))],   # chain
    [("E", ()), ("D", ("E",)), ("C", ("D",)), ("B", ("C",)), ("A", ("B",))],   # reversed chain
    [("C", ()), ("A", ("C",)), ("B", ("C",)), ("E", ("A", "B")), ("D", ())],   # rotated diamond
    [("D", ()), ("E", ()), ("A", ("D", "E")), ("B", ("E",)), ("C", ("B",))],   # swapped roles
]


def hierarchy_text(variant=0):
  out = []
  for name, bases in HIERARCHIES[variant]:
    out.append(f"class {name}({', '.join(bases)}): ..." if bases else f"class {name}: ...")
  return "\n".join(out) + "\n"


HEADER = IMPORTS + hierarchy_text(0)

USER = ["A", "B", "C", "D", "E"]
SCALARS = ["int", "float", "str", "bytes", "bool", "None", "complex"]
CONTAINERS1 = ["list", "set", "frozenset", "Sequence", "Iterable"]
EXCEPTIONS = ["ValueError", "KeyError", "TypeError"]


class TypeGen:
  """Random type expressions, rendered as pyi text."""

  def __init__(self, rng: random.Random, rich=True):
    self.r = rng
    self.rich = rich
    self.allow_tvar = False      # only inside parameter types (else "not in scope")
    self.features = set()

  def atom(self):
    r = self.r
    x = r.random()
    if x < 0.40:
      return r.choice(USER)
    if x < 0.80:
      return r.choice(SCALARS)
    if x < 0.86:
      self.features.add("Any")
      return "Any"
    if x < 0.92:
      self.features.add("object")
      return "object"
    if x < 0.94:
      self.features.add("nothing")
      return "nothing"
    if x < 0.96 and self.rich and self.allow_tvar:
      self.features.add("typevar")
      return "T"
    if x < 0.975 and self.rich:
      self.features.add("literal")
      return r.choice(["Literal[1]", "Literal['a']", "Literal[True]"])
    return r.choice(["list", "tuple", "dict", "type", "Callable", "set"])

  def related(self):
    """Members related by the hierarchy (for subclass absorption)."""
    r = self.r
    fam = r.choice([["A", "B", "C", "D"], ["int", "bool"], ["A", "D"], ["B", "D", "E"],
                    ["int", "float", "complex"], ["A", "B", "C", "D", "E"], ["A", "B"],
                    ["C", "D", "E"]])
    k = r.randint(2, len(fam))
    out = r.sample(fam, k)
    self.features.add("related")
    return out

  def union(self, depth, n=None):
    r = self.r
    n = n or r.choice([2, 2, 2, 3, 3, 4, 5, 6, 7, 8, 9])
    ms = []
    style = r.random()
    if style < 0.25:
      ms = self.related()
    if style > 0.85:
      # same container, different parameters (container merging)
      ms += self.mergeable(depth)
    while len(ms) < n:
      ms.append(self.type(depth - 1) if depth > 0 else self.atom())
    if r.random() < 0.25:
      ms.append(r.choice(ms))       # duplicate
      self.features.add("dup")
    if r.random() < 0.2 and depth > 0:
      ms.append(self.union(depth - 1, n=r.choice([2, 3])))   # nested union
      self.features.add("nested-union")
    r.shuffle(ms)
    if len(ms) > 7:
      self.features.add("long-union")
    if len(ms) == 2 and r.random() < 0.3 and "None" not in ms:
      return f"Optional[{ms[0]}]"
    self.features.add("union")
    return "Union[" + ", ".join(ms) + "]"

  def tuple_type(self, depth):
    r = self.r
    x = r.random()
    sub = lambda: self.type(depth - 1) if depth > 0 else self.atom()
    if x < 0.3:
      self.features.add("htuple")
      return f"tuple[{sub()}, ...]"
    if x < 0.36:
      self.features.add("tuple0")
      return "tuple[()]"
    n = r.choice([1, 2, 2, 3])
    self.features.add(f"tuple{n}")
    return "tuple[" + ", ".join(sub() for _ in range(n)) + "]"

  def callable_type(self, depth):
    r = self.r
    sub = lambda: self.type(depth - 1) if depth > 0 else self.atom()
    if r.random() < 0.25:
      self.features.add("callable-any-args")
      return f"Callable[..., {sub()}]"
    n = r.choice([0, 1, 1, 2, 3])
    self.features.add(f"callable{n}")
    return "Callable[[" + ", ".join(sub() for _ in range(n)) + f"], {sub()}]"

  def mergeable(self, depth):
    r = self.r
    kind = r.choice(["list", "tuple", "callable", "dict", "type", "set"])
    k = r.choice([2, 2, 3])
    self.features.add("mergeable-" + kind)
    d = max(depth - 1, 0)
    if kind == "tuple":
      return [self.tuple_type(d) for _ in range(k)]
    if kind == "callable":
      return [self.callable_type(d) for _ in range(k)]
    if kind == "dict":
      return [f"dict[{self.type(d)}, {self.type(d)}]" for _ in range(k)]
    if kind == "type":
      return [f"type[{self.r.choice(USER + ['int', 'object', 'Any'])}]" for _ in range(k)]
    return [f"{kind}[{self.type(d)}]" for _ in range(k)]

  def type(self, depth=2):
    r = self.r
    if depth <= 0:
      return self.atom()
    x = r.random()
    if x < 0.30:
      return self.atom()
    if x < 0.58:
      return self.union(depth)
    if x < 0.70:
      c = r.choice(CONTAINERS1)
      self.features.add("generic")
      return f"{c}[{self.type(depth - 1)}]"
    if x < 0.76:
      self.features.add("dict")
      return f"{r.choice(['dict', 'Mapping'])}[{self.type(depth - 1)}, {self.type(depth - 1)}]"
    if x < 0.86:
      return self.tuple_type(depth)
    if x < 0.94:
      return self.callable_type(depth)
    self.features.add("type[]")
    return f"type[{r.choice(USER + ['int', 'object', 'Any', 'Union[A, E]', 'Union[B, A]'])}]"

  def equivalent(self, t):
    """A type that optimisation turns into `t` (or something close to it)."""
    r = self.r
    x = r.random()
    self.features.add("late-equal-params")
    if x < 0.3:
      return f"Union[{t}, {t}]"
    if x < 0.5 and t in ("int", "A", "B", "float"):
      sub = {"int": "bool", "A": r.choice(["B", "D"]), "B": "D", "float": "float"}[t]
      return f"Union[{t}, {sub}]"
    if x < 0.65:
      return f"Union[{t}, nothing]"
    if x < 0.8 and t == "list":
      return "list[Any]"
    return f"Union[{t}, Union[{t}, {t}]]"


def _params(tg: TypeGen, r, n, depth):
  names = ["x", "y", "z"]
  tg.allow_tvar = True
  try:
    return [(names[i], tg.type(depth)) for i in range(n)]
  finally:
    tg.allow_tvar = False


def _ptype(tg, depth):
  tg.allow_tvar = True
  try:
    return tg.type(depth)
  finally:
    tg.allow_tvar = False


def _ret(tg, r, params, depth):
  t = tg.type(depth)
  if any(_has_tvar(pt) for _, pt in params):
    if r.random() < 0.3:
      return r.choice(["T", f"Union[T, {t}]", f"list[T]"])
  return t


def _has_tvar(text):
  import re
  return re.search(r"(?<![A-Za-z_])T(?![A-Za-z_0-9])", text) is not None


def _render_sig(name, params, ret, r, decorators="", star=None, kwonly=None, optional=(),
                mutated=None, exc=None, self_type=None):
  parts = []
  if self_type is not None:
    parts.append("self" if self_type == "" else f"self: {self_type}")
  for i, (pn, pt) in enumerate(params):
    parts.append(f"{pn}: {pt}" + (" = ..." if pn in optional else ""))
  if star:
    parts.append(f"*args: {star}")
  if kwonly:
    if not star:
      parts.append("*")
    parts.append(f"k: {kwonly}")
  body = []
  if mutated:
    body.append(f"    {mutated[0]} = {mutated[1]}")
  for e in exc or ():
    body.append(f"    raise {e}()")
  head = f"{decorators}def {name}({', '.join(parts)}) -> {ret}:"
  if not body:
    return head + " ..."
  return head + "\n" + "\n".join(body)


def gen_function(tg: TypeGen, r, name, depth, indent="", self_type=None):
  """An overload family. Returns pyi text."""
  n = r.choice([0, 1, 1, 1, 2, 2, 3])
  base = _params(tg, r, n, depth)
  star = tg.type(1) if r.random() < 0.1 else None
  kwonly = tg.type(1) if r.random() < 0.1 else None
  want_optional = r.random() < 0.15
  sigs = []
  k = r.choice([1, 1, 2, 2, 3, 3, 4, 5])
  first_ret = _ret(tg, r, base, depth)
  sigs.append(dict(params=base, ret=first_ret, exc=r.sample(EXCEPTIONS, r.choice([0, 0, 0, 1, 2]))))
  for _ in range(k - 1):
    x = r.random()
    prev = r.choice(sigs)
    params = list(prev["params"])
    ret = prev["ret"]
    exc = list(prev["exc"])
    mutated = prev.get("mutated")
    if x < 0.15:
      tg.features.add("ov-identical")
    elif x < 0.45:
      tg.features.add("ov-return-only")
      ret = _ret(tg, r, params, depth)
    elif x < 0.55:
      tg.features.add("ov-exceptions-only")
      exc = r.sample(EXCEPTIONS, r.choice([1, 2]))
    elif x < 0.75 and params:
      tg.features.add("ov-one-param")
      i = r.randrange(len(params))
      params[i] = (params[i][0], _ptype(tg, depth))
      if r.random() < 0.5:
        ret = tg.type(depth)
    elif x < 0.90 and params:
      i = r.randrange(len(params))
      params[i] = (params[i][0], tg.equivalent(params[i][1]))
      ret = tg.type(depth)
    else:
      tg.features.add("ov-arity")
      params = _params(tg, r, r.choice([0, 1, 2, 3]), depth)
      ret = tg.type(depth)
    sigs.append(dict(params=params, ret=ret, exc=exc, mutated=mutated))
  # mutated parameters
  for s in sigs:
    if s["params"] and r.random() < 0.12:
      pn, pt = r.choice(s["params"])
      c = r.choice(["list", "set", "dict"])
      i = r.randrange(len(s["params"]))
      inner = tg.type(1)
      if c == "dict":
        s["params"][i] = (s["params"][i][0], f"dict[{tg.type(1)}, {inner}]")
        s["mutated"] = (s["params"][i][0], f"dict[{tg.type(1)}, {tg.type(1)}]")
      else:
        s["params"][i] = (s["params"][i][0], f"{c}[{inner}]")
        s["mutated"] = (s["params"][i][0], f"{c}[{tg.type(1)}]")
      tg.features.add("mutated-param")
  out = []
  deco = f"{indent}@overload\n" if len(sigs) > 1 else ""
  for s in sigs:
    optional = set()
    if want_optional and s["params"] and not s.get("mutated"):
      optional = {s["params"][-1][0]}
    if not _sig_tvars_ok(s):
      s["ret"] = "int"
    txt = _render_sig(name, s["params"], s["ret"], r, star=star, kwonly=kwonly, optional=optional,
                      mutated=s.get("mutated"), exc=s["exc"], self_type=self_type)
    txt = "\n".join(indent + line for line in txt.split("\n"))
    out.append(deco + txt)
  return "\n".join(out)


def _sig_tvars_ok(s):
  """A TypeVar in the return type must also occur in a parameter."""
  if not _has_tvar(s["ret"]):
    return True
  return any(_has_tvar(pt) for _, pt in s["params"])


def generate_unit(rng: random.Random, name: str, size=None, rich=True, hierarchy=0):
  """Returns {"name", "text", "features", "n_decls"}."""
  r = rng
  tg = TypeGen(r, rich)
  lines = [(IMPORTS + hierarchy_text(hierarchy)).replace("Union)", "Union, overload)")]
  tg.features.add(f"hierarchy{hierarchy}")
  nconst = size or r.randint(4, 10)
  nfun = size or r.randint(2, 6)
  for i in range(nconst):
    lines.append(f"c{i}: {tg.type(r.choice([1, 2, 2]))}")
  for i in range(nfun):
    lines.append(gen_function(tg, r, f"f{i}", r.choice([1, 2, 2])))
  ncls = r.choice([0, 1, 1, 2])
  for i in range(ncls):
    base = r.choice(["", "", "(A)", "(E)", "(D)"])
    body = []
    for j in range(r.randint(0, 3)):
      body.append(f"    a{j}: {tg.type(2)}")
    for j in range(r.randint(0, 3)):
      body.append(gen_function(tg, r, f"m{j}", 2, indent="    ", self_type=""))
    if not body:
      body = ["    ..."]
    lines.append(f"class K{i}{base}:\n" + "\n".join(body))
    tg.features.add("class-members")
  if rich and r.random() < 0.3:
    tg.features.add("generic-self")
    lines.append("class G(Generic[T]):\n"
                 f"    def m(self: G[int], x: T) -> {tg.type(1)}: ...\n"
                 f"    def n(self, x: Union[T, T2]) -> T2: ...\n"
                 f"    g: {tg.type(2)}")
  return {"name": name, "text": "\n".join(lines) + "\n", "features": sorted(tg.features),
          "n_decls": nconst + nfun}


def single_decl_unit(decl_text: str, hierarchy=0):
  """Hierarchy header + one declaration."""
  return (IMPORTS + hierarchy_text(hierarchy)).replace("Union)", "Union, overload)") + decl_text + "\n"
