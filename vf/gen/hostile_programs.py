"""Unrestricted ("hostile") program generator, token/line mutator and syntactic
nesting enumerator shared by C15 and C16.

* `generate(rng)`   -> source text that (almost always) compiles under CPython 3.12
                       but is not meant to run: loops with break/continue/else,
                       generators, yield from, async def/for/with, with+try/finally
                       +return, match with every pattern kind, decorators, nested
                       comprehensions, star expressions, walrus, global/nonlocal,
                       del, class bodies with conditionals, metaclasses, __slots__,
                       NamedTuple/Enum classes, f-strings, chained exceptions,
                       recursion, PEP 695 syntax, deep expressions.
* `mutate(rng, text)` -> (text', kind): one to three token- or line-level edits
                       (delete/duplicate/swap/insert/replace a token or a line,
                       unbalance brackets, break indentation, NUL byte, ...).
                       Roughly half of the mutants still compile.
* `nesting_cases(depth)` -> iterator of (label, source of ONE function) for every
                       nesting chain of control constructs up to `depth` with a
                       terminator placed innermost.

All randomness comes from the `random.Random` passed in.
"""
from __future__ import annotations

import io
import itertools
import keyword
import random
import tokenize

# ---------------------------------------------------------------------------
# generator

BUILTIN_FUNCS = ["len", "int", "str", "print", "isinstance", "range", "zip", "enumerate",
                 "sorted", "map", "filter", "sum", "min", "max", "list", "dict", "set",
                 "tuple", "type", "getattr", "hasattr", "iter", "next", "repr", "abs",
                 "any", "all", "reversed", "bool", "float", "bytes", "id", "callable"]
EXC = ["ValueError", "KeyError", "TypeError", "Exception", "RuntimeError", "OSError",
       "StopIteration", "AttributeError", "IndexError", "ZeroDivisionError"]
ANNOTS = ["int", "str", "float", "bool", "bytes", "None", "object", "list[int]", "dict[str, int]",
          "tuple[int, ...]", "Optional[int]", "Union[int, str]", "List[str]", "Dict[str, Any]",
          "Any", "Callable[[int], str]", "Iterable[int]", "Sequence[str]", "'Fwd'", "set[str]",
          "Tuple[int, str]", "type[int]", "Iterator[int]", "int | None", "list['Fwd']"]
BINOPS = ["+", "-", "*", "/", "//", "%", "**", "@", "&", "|", "^", "<<", ">>"]
CMPOPS = ["<", "<=", "==", "!=", ">", ">=", "is", "is not", "in", "not in"]
DUNDERS = ["__len__", "__iter__", "__getitem__", "__contains__", "__eq__", "__hash__",
           "__repr__", "__call__", "__enter__", "__exit__", "__add__", "__bool__",
           "__getattr__", "__setitem__", "__next__", "__lt__", "__radd__"]


class Ctx:
  """Where we are: decides which statements are legal."""

  def __init__(self, kind="module", in_loop=False, in_class=False, names=None, depth=0,
               outer_locals=None, in_finally=False, in_except=False, no_walrus=False):
    self.kind = kind          # module | plain | generator | async | async_gen | classbody
    self.in_loop = in_loop
    self.in_class = in_class
    self.names = names if names is not None else []
    self.depth = depth
    self.outer_locals = outer_locals or []
    self.in_finally = in_finally
    self.in_except = in_except
    self.no_walrus = no_walrus

  @property
  def in_func(self):
    return self.kind in ("plain", "generator", "async", "async_gen")

  @property
  def can_await(self):
    return self.kind in ("async", "async_gen")

  @property
  def can_yield(self):
    return self.kind in ("generator", "async_gen")

  def sub(self, **kw):
    c = Ctx(self.kind, self.in_loop, self.in_class, self.names, self.depth + 1,
            self.outer_locals, self.in_finally, self.in_except, self.no_walrus)
    for k, v in kw.items():
      setattr(c, k, v)
    return c


class HostileGen:
  """Random program builder."""

  def __init__(self, rng: random.Random, size=None, max_depth=4):
    self.r = rng
    self.out = []
    self.n = 0
    self.size = size or rng.randint(3, 12)
    self.max_depth = max_depth
    self.funcs = ["helper"]
    self.classes = []
    self.globals = ["G0", "G1"]
    self.budget = self.size * 5      # statements overall

  # -- utilities ----------------------------------------------------------
  def fresh(self, p="v"):
    self.n += 1
    return f"{p}{self.n}"

  def emit(self, ind, line):
    self.out.append("    " * ind + line)

  def name(self, ctx):
    r = self.r
    pool = ctx.names + self.globals
    if r.random() < 0.1 and self.funcs:
      return r.choice(self.funcs)
    if r.random() < 0.06 and self.classes:
      return r.choice(self.classes)
    return r.choice(pool) if pool else "G0"

  # -- expressions --------------------------------------------------------
  def atom(self, ctx):
    r = self.r
    x = r.random()
    if x < 0.38:
      return self.name(ctx)
    if x < 0.50:
      return str(r.choice([0, 1, 2, -1, 10, 255, 1 << 40, 3.5, 1e100, 0.0]))
    if x < 0.60:
      return r.choice(["'s'", '"t"', "''", "b'x'", "'%s %d'", "'a' 'b'", "r'\\d+'", "'''m\nl'''",
                       "'\\N{BULLET}'", "'{}'"])
    if x < 0.66:
      return r.choice(["None", "True", "False", "...", "1j", "NotImplemented", "__name__"])
    if x < 0.72:
      return "[]" if r.random() < 0.5 else "{}"
    if x < 0.78:
      return "()"
    if x < 0.84 and ctx.in_class or (ctx.in_func and "self" in ctx.names and x < 0.9):
      return "self." + r.choice(["x", "y", "items", "_p", "name"])
    return self.name(ctx)

  def expr(self, ctx, d=0):
    r = self.r
    if d >= 3 or r.random() < 0.22:
      return self.atom(ctx)
    x = r.random()
    e = lambda: self.expr(ctx, d + 1)
    if x < 0.12:
      return f"{e()} {r.choice(BINOPS)} {e()}"
    if x < 0.20:
      n = r.choice([1, 1, 2])
      parts = [e()]
      for _ in range(n):
        parts += [r.choice(CMPOPS), e()]
      return "(" + " ".join(parts) + ")"
    if x < 0.26:
      return f"({e()} {r.choice(['and', 'or'])} {e()})"
    if x < 0.29:
      return f"(not {e()})"
    if x < 0.32:
      return f"(-{e()})" if r.random() < 0.6 else f"(~{e()})"
    if x < 0.44:
      return self.call(ctx, d)
    if x < 0.50:
      return f"{self.postfix_base(ctx, d)}.{r.choice(['x', 'append', 'items', 'get', 'name', 'value', 'y', 'upper', '__class__', '_p'])}"
    if x < 0.56:
      return f"{self.postfix_base(ctx, d)}[{self.subscript(ctx, d)}]"
    if x < 0.62:
      return f"({e()} if {e()} else {e()})"
    if x < 0.68:
      items = [self.star_item(ctx, d) for _ in range(r.randint(0, 4))]
      br = r.choice(["[]", "()", "{}"])
      if br == "()" and len(items) == 1:
        return f"({items[0]},)"
      if br == "{}" and not items:
        return "set()"
      return br[0] + ", ".join(items) + br[1]
    if x < 0.72:
      items = []
      for _ in range(r.randint(0, 3)):
        items.append(f"**{e()}" if r.random() < 0.2 else f"{e()}: {e()}")
      return "{" + ", ".join(items) + "}"
    if x < 0.80:
      return self.comprehension(ctx, d)
    if x < 0.84:
      return self.lambda_(ctx, d)
    if x < 0.90:
      return self.fstring(ctx, d)
    if x < 0.93:
      return f"({self.fresh('w')} := {e()})" if not (ctx.in_class or ctx.no_walrus) else e()
    if x < 0.96 and ctx.can_await:
      return f"(await {e()})"
    if x < 0.98 and ctx.can_yield:
      return f"(yield {e()})" if r.random() < 0.8 else "(yield)"
    return self.atom(ctx)

  def postfix_base(self, ctx, d):
    if self.r.random() < 0.7:
      return self.name(ctx)
    return "(" + self.expr(ctx, d + 1) + ")"

  def subscript(self, ctx, d):
    r = self.r
    x = r.random()
    e = lambda: self.expr(ctx, d + 2)
    if x < 0.5:
      return e()
    if x < 0.7:
      return f"{e()}:{e()}"
    if x < 0.8:
      return "::-1"
    if x < 0.9:
      return f"{e()}, {e()}"
    return f"{e()}:, ..."

  def star_item(self, ctx, d):
    if self.r.random() < 0.2:
      return "*" + self.postfix_base(ctx, d)
    return self.expr(ctx, d + 1)

  def call(self, ctx, d):
    r = self.r
    x = r.random()
    if x < 0.35:
      f = r.choice(BUILTIN_FUNCS)
    elif x < 0.6 and self.funcs:
      f = r.choice(self.funcs)
    elif x < 0.75 and self.classes:
      f = r.choice(self.classes)
    elif x < 0.85:
      f = self.postfix_base(ctx, d) + "." + r.choice(["append", "get", "m", "join", "format", "pop", "update", "run", "send", "close"])
    elif x < 0.9 and ctx.in_class is False and ctx.in_func and "self" in ctx.names:
      f = "super().__init__" if r.random() < 0.5 else "super().m"
    else:
      f = self.name(ctx)
    args = []
    for _ in range(r.randint(0, 3)):
      args.append(self.expr(ctx, d + 1))
    if r.random() < 0.15:
      args.append("*" + self.postfix_base(ctx, d))
    for _ in range(r.choice([0, 0, 0, 1, 2])):
      args.append(f"{r.choice(['key', 'x', 'default', 'sep', 'k'])}{'' if r.random() < 0.8 else self.n}={self.expr(ctx, d + 1)}")
    if r.random() < 0.1:
      args.append("**" + self.postfix_base(ctx, d))
    # keyword names must be unique
    seen = set()
    clean = []
    for a in args:
      if "=" in a and not a.startswith("*") and a.split("=")[0].isidentifier():
        k = a.split("=")[0]
        if k in seen:
          continue
        seen.add(k)
      clean.append(a)
    # positional after keyword is illegal: sort positional first
    pos = [a for a in clean if not ("=" in a and a.split("=")[0].isidentifier()) and not a.startswith("**")]
    kws = [a for a in clean if a not in pos]
    return f"{f}({', '.join(pos + kws)})"

  def comprehension(self, ctx, d):
    r = self.r
    v = self.fresh("i")
    sub = ctx.sub(names=ctx.names + [v], no_walrus=True)
    if ctx.in_class:
      sub = Ctx("plain", names=[v] + self.globals, depth=ctx.depth + 1, no_walrus=True)
      src = r.choice(["range(3)", "()", "'ab'"])
    else:
      src = self.expr(ctx.sub(no_walrus=True), d + 1)
    elt = self.expr(sub, d + 1)
    clauses = f"for {v} in {src}"
    if r.random() < 0.3:
      v2 = self.fresh("j")
      clauses = f"for {v}, {v2} in {src}"
      sub.names = sub.names + [v2]
    if r.random() < 0.4:
      clauses += f" if {self.expr(sub, d + 2)}"
    if r.random() < 0.25:
      v3 = self.fresh("k")
      clauses += f" for {v3} in {self.expr(sub, d + 2)}"
      if r.random() < 0.5:
        clauses += f" if {v3}"
    if ctx.can_await and r.random() < 0.2:
      clauses = "async " + clauses
    kind = r.choice(["list", "list", "set", "dict", "gen"])
    if "yield" in elt or "yield" in clauses:
      elt = v
      clauses = f"for {v} in {src if 'yield' not in src else 'G0'}"
    if kind == "list":
      return f"[{elt} for {clauses[4:]}]" if not clauses.startswith("async") else f"[{elt} {clauses}]"
    if kind == "set":
      return "{" + f"{elt} {clauses}" + "}"
    if kind == "dict":
      return "{" + f"{v}: {elt} {clauses}" + "}"
    return f"({elt} {clauses})"

  def lambda_(self, ctx, d):
    r = self.r
    ps = [self.fresh("a") for _ in range(r.randint(0, 2))]
    sub = Ctx("plain", names=ctx.names + ps if not ctx.in_class else ps + self.globals,
              depth=ctx.depth + 1)
    body = self.expr(sub, d + 1)
    sig = ", ".join(ps)
    if ps and r.random() < 0.3:
      sig += "=None"
    if r.random() < 0.15:
      sig = (sig + ", " if sig else "") + "*ar, **kw"
    return f"(lambda {sig}: {body})"

  def fstring(self, ctx, d):
    r = self.r
    sub = ctx
    parts = []
    for _ in range(r.randint(1, 3)):
      if r.random() < 0.3:
        parts.append(r.choice(["txt ", "{{", "}}", "a=", "%"]))
      inner = self.atom(sub) if r.random() < 0.6 else self.call(sub, 3)
      if any(c in inner for c in ("'", '"', "\\", "\n", ":=", "lambda", "{", "}", "!", "yield", "await")):
        inner = self.name(sub)
      x = r.random()
      if x < 0.2:
        parts.append("{" + inner + "!r}")
      elif x < 0.4:
        parts.append("{" + inner + ":>{w}}".replace("{w}", "{" + self.name(sub) + "}" if r.random() < 0.5 else "10"))
      elif x < 0.5:
        parts.append("{" + inner + "=}")
      elif x < 0.6:
        parts.append("{" + inner + ":.2f}")
      else:
        parts.append("{" + inner + "}")
    return "f'" + "".join(parts) + "'"

  def target(self, ctx, allow_star=True):
    r = self.r
    x = r.random()
    if x < 0.6 or ctx.in_class:
      v = self.fresh("v")
      ctx.names.append(v)
      return v
    if x < 0.72 and ctx.names:
      return r.choice(ctx.names)
    if x < 0.82:
      return f"{self.name(ctx)}[{self.expr(ctx, 2)}]"
    if x < 0.9:
      return f"{self.name(ctx)}.{r.choice(['x', 'y', 'attr'])}"
    a, b = self.fresh("v"), self.fresh("v")
    ctx.names += [a, b]
    if allow_star and r.random() < 0.5:
      return f"{a}, *{b}"
    return r.choice([f"{a}, {b}", f"({a}, {b})", f"[{a}, {b}]"])

  # -- patterns -----------------------------------------------------------
  def pattern(self, ctx, d=0, binds=None):
    r = self.r
    binds = binds if binds is not None else []
    x = r.random()
    if d >= 2:
      x *= 0.45
    if x < 0.12:
      return r.choice(["0", "1", "-1", "'s'", "b'x'", "None", "True", "1.5", "2+3j"])
    if x < 0.24:
      v = self.fresh("p")
      binds.append(v)
      return v
    if x < 0.30:
      return "_"
    if x < 0.38:
      return r.choice(["Color.RED", "enum.Enum.x", "G0.attr"]) if True else "_"
    if x < 0.45:
      return r.choice(["int()", "str()", "list()", "dict()"])
    if x < 0.58:
      items = [self.pattern(ctx, d + 1, binds) for _ in range(r.randint(0, 3))]
      if r.random() < 0.5:
        v = self.fresh("rest")
        binds.append(v)
        items.insert(r.randint(0, len(items)), r.choice(["*" + v, "*_"]))
      if r.random() < 0.5:
        return "[" + ", ".join(items) + "]"
      if len(items) == 1:
        return "(" + items[0] + ",)"
      return "(" + ", ".join(items) + ")"
    if x < 0.70:
      keys = r.sample(["'k'", "'type'", "1", "None", "Color.RED", "'x'"], r.randint(0, 3))
      items = [f"{k}: {self.pattern(ctx, d + 1, binds)}" for k in keys]
      if r.random() < 0.4:
        v = self.fresh("kw")
        binds.append(v)
        items.append("**" + v)
      return "{" + ", ".join(items) + "}"
    if x < 0.84:
      cls = r.choice(self.classes + ["int", "str", "Point", "dict", "tuple", "Exception"])
      pos = [self.pattern(ctx, d + 1, binds) for _ in range(r.randint(0, 2))]
      if cls in ("int", "str", "dict", "tuple"):
        pos = pos[:1]
      kws = [f"{k}={self.pattern(ctx, d + 1, binds)}" for k in r.sample(["x", "y", "name", "args"], r.randint(0, 2))]
      return f"{cls}({', '.join(pos + kws)})"
    if x < 0.93:
      # or-pattern: alternatives must bind the same names -> use non-binding alternatives
      alts = [r.choice(["0", "1", "'a'", "None", "int()", "str()", "[]", "{}", "Color.RED", "(1, 2)"])
              for _ in range(r.randint(2, 3))]
      p = " | ".join(alts)
      if r.random() < 0.4:
        v = self.fresh("o")
        binds.append(v)
        return f"({p}) as {v}"
      return p
    v = self.fresh("as")
    inner = self.pattern(ctx, d + 1, binds)
    if inner == "_" or inner.isidentifier():
      inner = "int()"
    binds.append(v)
    return f"({inner}) as {v}"

  # -- statements ---------------------------------------------------------
  def block(self, ctx, ind, n=None):
    r = self.r
    n = n if n is not None else r.randint(1, 3)
    emitted = 0
    for _ in range(n):
      if self.budget <= 0 and emitted:
        break
      self.stmt(ctx, ind)
      emitted += 1
    if not emitted:
      self.emit(ind, "pass")

  def stmt(self, ctx, ind):
    r = self.r
    self.budget -= 1
    deep = ctx.depth >= self.max_depth
    choices = [("assign", 14), ("augassign", 4), ("annassign", 4), ("expr", 7), ("assert", 2),
               ("del", 2), ("pass", 1)]
    if not deep:
      choices += [("if", 9), ("for", 7), ("while", 5), ("try", 8), ("with", 6), ("match", 5),
                  ("def", 4), ("class", 2), ("import", 1)]
    if ctx.in_func:
      choices += [("return", 5), ("raise", 3)]
      if not deep:
        choices += [("with_try_return", 3)]
    else:
      choices += [("raise", 1)]
    if ctx.in_loop:
      choices += [("break", 4), ("continue", 4)]
    if ctx.can_yield:
      choices += [("yield", 6)]
    if ctx.kind == "generator":
      choices += [("yield_from", 3)]
    if ctx.can_await:
      choices += [("await", 5)]
      if not deep:
        choices += [("async_for", 5), ("async_with", 5)]
    if ctx.kind == "module" and ind == 0:
      choices += [("type_alias", 1), ("deep_expr", 1)]
    kinds, weights = zip(*choices)
    k = r.choices(kinds, weights)[0]
    getattr(self, "s_" + k)(ctx, ind)

  def s_pass(self, ctx, ind):
    self.emit(ind, self.r.choice(["pass", "...", "'doc'"]))

  def s_assign(self, ctx, ind):
    r = self.r
    val = self.expr(ctx)
    if r.random() < 0.12:
      val = "*" + self.postfix_base(ctx, 2) + ", " + self.expr(ctx, 2)
    t = self.target(ctx)
    if r.random() < 0.1:
      t = t + " = " + self.target(ctx, allow_star=False)
    self.emit(ind, f"{t} = {val}")

  def s_augassign(self, ctx, ind):
    r = self.r
    pool = ctx.names or self.globals
    t = r.choice(pool)
    x = r.random()
    if x < 0.2:
      t = f"{t}[{self.expr(ctx, 2)}]"
    elif x < 0.35:
      t = f"{t}.x"
    self.emit(ind, f"{t} {r.choice(BINOPS)}= {self.expr(ctx, 1)}")

  def s_annassign(self, ctx, ind):
    r = self.r
    v = self.fresh("v")
    ann = r.choice(ANNOTS)
    x = r.random()
    if x < 0.55:
      self.emit(ind, f"{v}: {ann} = {self.expr(ctx, 1)}")
    elif x < 0.85:
      self.emit(ind, f"{v}: {ann}")
    elif x < 0.93:
      self.emit(ind, f"{v}: {ann}  # a comment; with # marks")
    else:
      self.emit(ind, f"{v}: {ann} = {self.expr(ctx, 2)}  # type: ignore")
    ctx.names.append(v)

  def s_expr(self, ctx, ind):
    self.emit(ind, self.call(ctx, 0) if self.r.random() < 0.7 else self.expr(ctx))

  def s_assert(self, ctx, ind):
    if self.r.random() < 0.5:
      self.emit(ind, f"assert {self.expr(ctx, 1)}")
    else:
      self.emit(ind, f"assert isinstance({self.name(ctx)}, {self.r.choice(['int', 'str', '(int, str)', 'list'])}), {self.expr(ctx, 2)}")

  def s_del(self, ctx, ind):
    r = self.r
    pool = ctx.names or self.globals
    x = r.random()
    t = r.choice(pool)
    if x < 0.3:
      t = f"{t}[{self.expr(ctx, 2)}]"
    elif x < 0.5:
      t = f"{t}.x"
    elif x < 0.6 and len(pool) > 1:
      t = f"{t}, {r.choice(pool)}"
    self.emit(ind, f"del {t}")

  def s_if(self, ctx, ind):
    r = self.r
    cond = self.expr(ctx, 1)
    x = r.random()
    if x < 0.2:
      cond = f"isinstance({self.name(ctx)}, {r.choice(['int', 'str', 'list', '(int, float)'] + self.classes)})"
    elif x < 0.3:
      cond = f"{self.name(ctx)} is {r.choice(['None', 'not None'])}"
    elif x < 0.4 and not ctx.in_class:
      w = self.fresh("w")
      cond = f"({w} := {self.expr(ctx, 2)}) is not None"
      ctx.names.append(w)
    self.emit(ind, f"if {cond}:")
    self.block(ctx.sub(), ind + 1)
    for _ in range(r.choice([0, 0, 1, 2])):
      self.emit(ind, f"elif {self.expr(ctx, 1)}:")
      self.block(ctx.sub(), ind + 1)
    if r.random() < 0.5:
      self.emit(ind, "else:")
      self.block(ctx.sub(), ind + 1)

  def s_for(self, ctx, ind, is_async=False):
    r = self.r
    src = self.expr(ctx, 1)
    x = r.random()
    if x < 0.2:
      src = f"range({self.expr(ctx, 2)})"
    elif x < 0.3:
      src = f"enumerate({self.name(ctx)})"
    elif x < 0.4:
      src = f"{self.name(ctx)}.items()"
    t = self.target(ctx)
    self.emit(ind, f"{'async ' if is_async else ''}for {t} in {src}:")
    self.block(ctx.sub(in_loop=True, in_finally=False), ind + 1)
    if r.random() < 0.35:
      self.emit(ind, "else:")
      self.block(ctx.sub(), ind + 1)

  def s_async_for(self, ctx, ind):
    self.s_for(ctx, ind, True)

  def s_while(self, ctx, ind):
    r = self.r
    cond = r.choice(["True", "1", self.expr(ctx, 1), self.name(ctx), f"({self.fresh('w')} := {self.name(ctx)})" if not ctx.in_class else "False"])
    self.emit(ind, f"while {cond}:")
    self.block(ctx.sub(in_loop=True, in_finally=False), ind + 1)
    if r.random() < 0.3:
      self.emit(ind, "else:")
      self.block(ctx.sub(), ind + 1)

  def s_try(self, ctx, ind):
    r = self.r
    self.emit(ind, "try:")
    self.block(ctx.sub(), ind + 1)
    form = r.choice(["except", "except", "finally", "both", "full", "star"])
    if form in ("except", "both", "full"):
      for i in range(r.choice([1, 1, 2, 3])):
        x = r.random()
        if x < 0.15 and i == 0 and form != "full":
          self.emit(ind, "except:")
          self.block(ctx.sub(in_except=True), ind + 1)
          break
        if x < 0.5:
          e = self.fresh("e")
          self.emit(ind, f"except {r.choice(EXC)} as {e}:")
          sub = ctx.sub(in_except=True, names=ctx.names + [e])
          if r.random() < 0.4 and ctx.in_func:
            self.emit(ind + 1, f"raise {r.choice(EXC)}({self.expr(sub, 2)}) from {r.choice([e, 'None'])}")
          else:
            self.block(sub, ind + 1)
        elif x < 0.75:
          self.emit(ind, f"except ({r.choice(EXC)}, {r.choice(EXC)}):")
          self.block(ctx.sub(in_except=True), ind + 1)
        else:
          self.emit(ind, f"except {r.choice(EXC)}:")
          sub = ctx.sub(in_except=True)
          if r.random() < 0.3:
            self.emit(ind + 1, "raise")
          else:
            self.block(sub, ind + 1)
    if form == "star":
      e = self.fresh("eg")
      self.emit(ind, f"except* {r.choice(EXC)} as {e}:")
      # break/continue/return are illegal in except*
      self.emit(ind + 1, f"{self.fresh('v')} = {e}.exceptions")
    if form == "full":
      self.emit(ind, "else:")
      self.block(ctx.sub(), ind + 1)
    if form in ("finally", "both", "full"):
      self.emit(ind, "finally:")
      self.block(ctx.sub(in_finally=True), ind + 1)

  def with_items(self, ctx):
    r = self.r
    items = []
    for _ in range(r.choice([1, 1, 1, 2, 3])):
      e = r.choice([f"open({self.expr(ctx, 2)})", self.call(ctx, 1), self.name(ctx)])
      if r.random() < 0.6:
        e += " as " + self.target(ctx, allow_star=False)
      items.append(e)
    s = ", ".join(items)
    if len(items) > 1 and r.random() < 0.4:
      s = "(" + s + ")"
    return s

  def s_with(self, ctx, ind, is_async=False):
    self.emit(ind, f"{'async ' if is_async else ''}with {self.with_items(ctx)}:")
    self.block(ctx.sub(), ind + 1)

  def s_async_with(self, ctx, ind):
    self.s_with(ctx, ind, True)

  def s_with_try_return(self, ctx, ind):
    """with + try/finally + return combinations."""
    r = self.r
    ret = "return" if ctx.kind == "async_gen" else f"return {self.expr(ctx, 1)}"
    aw = "async " if ctx.can_await and r.random() < 0.5 else ""
    order = r.choice(["wt", "tw", "wtw"])
    if order == "wt":
      self.emit(ind, f"{aw}with {self.with_items(ctx)}:")
      self.emit(ind + 1, "try:")
      self.block(ctx.sub(), ind + 2, 1)
      self.emit(ind + 2, ret)
      self.emit(ind + 1, "finally:")
      self.block(ctx.sub(in_finally=True), ind + 2, 1)
    elif order == "tw":
      self.emit(ind, "try:")
      self.emit(ind + 1, f"{aw}with {self.with_items(ctx)}:")
      self.block(ctx.sub(), ind + 2, 1)
      if r.random() < 0.7:
        self.emit(ind + 2, ret)
      self.emit(ind, "finally:")
      if r.random() < 0.3:
        self.emit(ind + 1, ret)
      else:
        self.block(ctx.sub(in_finally=True), ind + 1, 1)
    else:
      self.emit(ind, f"with {self.with_items(ctx)}:")
      self.emit(ind + 1, "try:")
      self.emit(ind + 2, f"{aw}with {self.with_items(ctx)}:")
      self.emit(ind + 3, ret)
      self.emit(ind + 1, f"except {r.choice(EXC)}:")
      self.emit(ind + 2, ret if r.random() < 0.5 else "raise")
      self.emit(ind + 1, "finally:")
      self.emit(ind + 2, self.call(ctx, 1))

  def s_match(self, ctx, ind):
    r = self.r
    subj = self.expr(ctx, 2) if r.random() < 0.6 else f"{self.name(ctx)}, {self.name(ctx)}"
    self.emit(ind, f"match {subj}:")
    ncase = r.randint(1, 4)
    extra = r.random() < 0.4
    for i in range(ncase):
      binds = []
      p = self.pattern(ctx, 0, binds)
      last = i == ncase - 1 and not extra
      irrefutable = p == "_" or p.isidentifier()
      guard = ""
      if r.random() < 0.3:
        guard = f" if {self.expr(ctx.sub(names=ctx.names + binds), 2)}"
      if irrefutable and not last and not guard:
        p = "int()"       # an irrefutable pattern may only be last
      self.emit(ind + 1, f"case {p}{guard}:")
      self.block(ctx.sub(names=ctx.names + binds), ind + 2)
    if extra:
      self.emit(ind + 1, "case _:")
      self.block(ctx.sub(), ind + 2)

  def s_return(self, ctx, ind):
    r = self.r
    if ctx.kind == "async_gen" or r.random() < 0.15:
      self.emit(ind, "return")
    elif r.random() < 0.12 and self.funcs:
      self.emit(ind, f"return {r.choice(self.funcs)}({self.expr(ctx, 2)})")
    else:
      self.emit(ind, f"return {self.expr(ctx)}")

  def s_raise(self, ctx, ind):
    r = self.r
    x = r.random()
    if x < 0.2 and ctx.in_except:
      self.emit(ind, "raise")
    elif x < 0.5:
      self.emit(ind, f"raise {r.choice(EXC)}({self.expr(ctx, 2)})")
    elif x < 0.7:
      self.emit(ind, f"raise {r.choice(EXC)}")
    elif x < 0.85:
      self.emit(ind, f"raise {r.choice(EXC)}('m') from {self.name(ctx)}")
    else:
      self.emit(ind, f"raise {self.name(ctx)}")

  def s_break(self, ctx, ind):
    self.emit(ind, "break")

  def s_continue(self, ctx, ind):
    self.emit(ind, "continue")

  def s_yield(self, ctx, ind):
    r = self.r
    x = r.random()
    if x < 0.5:
      self.emit(ind, f"yield {self.expr(ctx, 1)}")
    elif x < 0.7:
      v = self.fresh("v")
      ctx.names.append(v)
      self.emit(ind, f"{v} = yield {self.expr(ctx, 1)}")
    elif x < 0.85:
      self.emit(ind, "yield")
    else:
      self.emit(ind, f"yield {self.expr(ctx, 2)}, {self.expr(ctx, 2)}")

  def s_yield_from(self, ctx, ind):
    r = self.r
    src = r.choice([self.name(ctx), f"{r.choice(self.funcs)}({self.expr(ctx, 2)})", "range(3)", "[1, 'a']"])
    if r.random() < 0.4:
      v = self.fresh("v")
      ctx.names.append(v)
      self.emit(ind, f"{v} = yield from {src}")
    else:
      self.emit(ind, f"yield from {src}")

  def s_await(self, ctx, ind):
    r = self.r
    if r.random() < 0.5:
      v = self.fresh("v")
      ctx.names.append(v)
      self.emit(ind, f"{v} = await {self.call(ctx, 1)}")
    else:
      self.emit(ind, f"await {self.call(ctx, 1)}")

  def s_import(self, ctx, ind):
    r = self.r
    self.emit(ind, r.choice([
        "import collections", "from collections import OrderedDict", "import os",
        "from os import path as p", "import enum", "from abc import ABC, abstractmethod",
        "import sys", "from . import sibling", "import a.b.c", "from typing import TypeVar, Generic",
        "import typing as t", "from __future__ import annotations" if False else "import json"]))

  def s_type_alias(self, ctx, ind):
    r = self.r
    n = self.fresh("T")
    self.emit(ind, r.choice([
        f"type {n} = int | str", f"type {n}[K] = dict[K, list[K]]",
        f"{n} = TypeVar('{n}')", f"{n} = Union[int, 'Fwd']",
        f"{n} = TypeVar('{n}', bound='Fwd')", f"{n} = Callable[..., Any]"]))
    self.globals.append(n)

  def s_deep_expr(self, ctx, ind):
    r = self.r
    v = self.fresh("deep")
    n = r.choice([20, 60, 150])
    x = r.random()
    if x < 0.3:
      self.emit(ind, f"{v} = " + " + ".join(r.choice(["'a'", "G0", "1", "[1]"]) for _ in range(n)))
    elif x < 0.5:
      self.emit(ind, f"{v} = " + "[" * (n // 4) + "0" + "]" * (n // 4))
    elif x < 0.7:
      self.emit(ind, f"{v} = " + " and ".join(f"G0.a{i}" for i in range(n // 3)))
    elif x < 0.85:
      self.emit(ind, f"{v} = G0" + "".join(r.choice([".a", "[0]", "()"]) for _ in range(n // 3)))
    else:
      self.emit(ind, f"{v} = {{" + ", ".join(f"'k{i}': {i}" for i in range(n)) + "}")
    self.globals.append(v)

  # -- functions and classes ---------------------------------------------
  def signature(self, ctx, method=None):
    r = self.r
    ps = []
    names = []
    if method == "self":
      ps.append("self")
      names.append("self")
    elif method == "cls":
      ps.append("cls")
      names.append("cls")
    n = r.randint(0, 3)
    seen_default = False
    plain = []
    for _ in range(n):
      p = self.fresh("p")
      names.append(p)
      s = p
      if r.random() < 0.45:
        s += ": " + r.choice(ANNOTS)
      if seen_default or r.random() < 0.3:
        seen_default = True
        s += (" = " if ":" in s else "=") + r.choice(["None", "0", "''", "()", "[]", "G0", "1.5"])
      plain.append(s)
    if plain and r.random() < 0.15 and not any("=" in s for s in plain[:1]):
      plain.insert(1, "/")
    ps += plain
    x = r.random()
    if x < 0.2:
      ps.append("*args" + (": int" if r.random() < 0.3 else ""))
      names.append("args")
    elif x < 0.3:
      ps.append("*")
      k = self.fresh("k")
      ps.append(k + "=None")
      names.append(k)
    if x < 0.2 and r.random() < 0.5:
      k = self.fresh("k")
      ps.append(f"{k}: int = 0" if r.random() < 0.5 else k)
      names.append(k)
    if r.random() < 0.15:
      ps.append("**kw" + (": str" if r.random() < 0.3 else ""))
      names.append("kw")
    if ps and ps[-1] == "*":
      ps.pop()
    ret = ""
    if r.random() < 0.35:
      ret = " -> " + r.choice(ANNOTS)
    return ", ".join(ps), names, ret

  def s_def(self, ctx, ind, method=None, name=None, decorators=None):
    r = self.r
    kind = r.choice(["plain", "plain", "plain", "generator", "async", "async_gen"])
    if name in ("__init__", "__len__", "__repr__", "__eq__", "__hash__", "__bool__", "__contains__"):
      kind = "plain"
    fname = name or self.fresh("f")
    decs = list(decorators or [])
    if not decs and r.random() < 0.25:
      decs = [r.choice(["helper", "helper(1)", "functools.wraps(helper)", "overload" if False else "staticmethod" if method else "helper",
                        "contextlib.contextmanager" if kind == "generator" else "helper"])]
      if decs == ["staticmethod"]:
        method = None
        decs = ["staticmethod"]
    for d in decs:
      self.emit(ind, "@" + d)
    m = None if "staticmethod" in decs else ("cls" if "classmethod" in decs else method)
    sig, names, ret = self.signature(ctx, m)
    tp = ""
    if r.random() < 0.04:
      tp = "[T]" if r.random() < 0.7 else "[T: int, *Ts, **P]"
    self.emit(ind, f"{'async ' if kind.startswith('async') else ''}def {fname}{tp}({sig}){ret}:")
    if ctx.in_func:
      outer = [n for n in ctx.names if n not in names and n != "self"]
    else:
      outer = []
    inner_names = list(names) + ([n for n in ctx.names] if ctx.in_func else [])
    sub = Ctx(kind, names=inner_names, depth=ctx.depth + 1, outer_locals=outer)
    body_ind = ind + 1
    if r.random() < 0.2:
      self.emit(body_ind, '"""Doc."""')
    x = r.random()
    if x < 0.12:
      g = r.choice(self.globals[:2])
      if g not in names:
        self.emit(body_ind, f"global {g}")
        self.emit(body_ind, f"{g} = {self.expr(sub, 2)}")
    elif x < 0.24 and outer:
      nl = r.choice(outer)
      if nl not in names and nl in ctx.names and ctx.kind != "module" and nl in getattr(ctx, "assigned", ctx.names):
        self.emit(body_ind, f"nonlocal {nl}")
        self.emit(body_ind, f"{nl} = {self.expr(sub, 2)}")
    if kind in ("generator", "async_gen") and r.random() < 0.7:
      self.emit(body_ind, f"yield {self.expr(sub, 2)}")
    if not ctx.in_class and not method and name is None:
      self.funcs.append(fname)
    if r.random() < 0.2 and not method and name is None:
      # recursion
      self.emit(body_ind, f"if {self.expr(sub, 2)}:")
      call = f"{fname}({', '.join(n for n in names[:2] if n not in ('args', 'kw'))})"
      if kind == "async":
        self.emit(body_ind + 1, f"return await {call}")
      elif kind == "generator":
        self.emit(body_ind + 1, f"yield from {call}")
      elif kind == "async_gen":
        self.emit(body_ind + 1, f"async for _x in {call}: yield _x")
      else:
        self.emit(body_ind + 1, f"return {call}")
    self.block(sub, body_ind, r.randint(1, 4))
    if ctx.in_func or ctx.kind == "module":
      ctx.names.append(fname)

  def s_class(self, ctx, ind):
    r = self.r
    cname = self.fresh("C")
    style = r.choice(["plain", "plain", "plain", "meta", "slots", "namedtuple", "enum", "dataclass",
                      "generic", "protocol", "abc", "exc"])
    bases = []
    if style == "plain" and self.classes and r.random() < 0.5:
      bases = r.sample(self.classes, min(len(self.classes), r.choice([1, 1, 2])))
    kw = ""
    decs = []
    if style == "meta":
      mname = self.fresh("Meta")
      self.emit(ind, f"class {mname}(type):")
      self.emit(ind + 1, "def __new__(mcs, name, bases, ns, **kw):")
      self.emit(ind + 2, "cls = super().__new__(mcs, name, bases, ns)")
      self.emit(ind + 2, f"cls.registry = {self.expr(Ctx('plain', names=['mcs', 'name', 'bases', 'ns', 'cls']), 2)}")
      self.emit(ind + 2, "return cls")
      if r.random() < 0.5:
        self.emit(ind + 1, "def __call__(cls, *a, **k):")
        self.emit(ind + 2, "return super().__call__(*a, **k)")
      kw = f"metaclass={mname}"
      if r.random() < 0.3:
        kw += ", flag=True"
    elif style == "namedtuple":
      bases = ["NamedTuple"]
    elif style == "enum":
      bases = [r.choice(["enum.Enum", "enum.IntEnum", "enum.Flag", "str, enum.Enum"])]
    elif style == "dataclass":
      decs = [r.choice(["dataclasses.dataclass", "dataclasses.dataclass(frozen=True)"])]
    elif style == "generic":
      bases = ["Generic[T_]"] if r.random() < 0.7 else []
    elif style == "protocol":
      bases = ["Protocol"]
    elif style == "abc":
      bases = ["abc.ABC"]
    elif style == "exc":
      bases = [r.choice(EXC)]
    for d in decs:
      self.emit(ind, "@" + d)
    if r.random() < 0.1:
      self.emit(ind, "@helper")
    tp = "[T]" if style == "generic" and not bases else ""
    hdr = ", ".join(bases + ([kw] if kw else []))
    self.emit(ind, f"class {cname}{tp}{'(' + hdr + ')' if hdr else ''}:")
    bi = ind + 1
    cctx = Ctx("classbody", in_class=True, names=[], depth=ctx.depth + 1)
    if r.random() < 0.3:
      self.emit(bi, '"""Class doc."""')
    if style == "slots":
      self.emit(bi, "__slots__ = " + r.choice(["('x', 'y')", "['x']", "'x'", "()", "('x', '__dict__')"]))
    if style in ("namedtuple", "dataclass"):
      for i in range(r.randint(1, 3)):
        d = "" if i == 0 or r.random() < 0.5 else " = " + r.choice(["0", "None", "''"])
        self.emit(bi, f"{r.choice(['x', 'y', 'name'])}{i}: {r.choice(ANNOTS)}{d}")
    elif style == "enum":
      for i in range(r.randint(1, 3)):
        self.emit(bi, f"{r.choice(['RED', 'GREEN', 'A', 'B'])}{i} = {r.choice(['1', '2', 'enum.auto()', repr('s'), '(1, 2)'])}")
    else:
      for _ in range(r.randint(0, 2)):
        v = self.fresh("ca")
        cctx.names.append(v)
        self.emit(bi, f"{v}{': ' + r.choice(ANNOTS) if r.random() < 0.4 else ''} = {self.expr(cctx, 2)}")
    # conditional class body
    if r.random() < 0.35:
      self.emit(bi, f"if {r.choice(['G0', 'sys.version_info >= (3, 8)', 'TYPE_CHECKING', 'not G1', '__name__ == ' + repr('x')])}:")
      self.s_def(cctx, bi + 1, method="self", name="m")
      self.emit(bi, "else:")
      if r.random() < 0.5:
        self.s_def(cctx, bi + 1, method="self", name="m")
      else:
        self.emit(bi + 1, f"m = {r.choice(['None', 'helper', 'lambda self: 0'])}")
    if style not in ("namedtuple", "enum", "protocol") and r.random() < 0.7:
      self.s_def(cctx, bi, method="self", name="__init__")
    for _ in range(r.randint(0, 3)):
      x = r.random()
      if x < 0.15:
        self.s_def(cctx, bi, method="self", name=r.choice(["prop", "name"]), decorators=["property"])
        if r.random() < 0.5:
          pn = self.out[-1]  # noqa: F841
      elif x < 0.25:
        self.s_def(cctx, bi, method="cls", name=self.fresh("cm"), decorators=["classmethod"])
      elif x < 0.33:
        self.s_def(cctx, bi, method=None, name=self.fresh("sm"), decorators=["staticmethod"])
      elif x < 0.45:
        self.s_def(cctx, bi, method="self", name=r.choice(DUNDERS))
      elif x < 0.5 and style == "abc":
        self.s_def(cctx, bi, method="self", name=self.fresh("am"), decorators=["abc.abstractmethod"])
      elif x < 0.55:
        self.stmt(cctx, bi)
      else:
        self.s_def(cctx, bi, method="self", name=self.fresh("m"))
    if r.random() < 0.1:
      self.emit(bi, "def __init_subclass__(cls, **kw): super().__init_subclass__(**kw)")
    if r.random() < 0.08:
      self.emit(bi, "def __class_getitem__(cls, item): return cls")
    if self.out[-1].rstrip().endswith(":"):
      self.emit(bi, "pass")
    if not any(l.startswith("    " * bi) and l.strip() for l in self.out[-1:]):
      self.emit(bi, "pass")
    self.classes.append(cname)
    if ctx.in_func or ctx.kind == "module":
      ctx.names.append(cname)

  # -- top level ----------------------------------------------------------
  def program(self):
    r = self.r
    self.emit(0, "from typing import (Any, Callable, Dict, Generic, Iterable, Iterator, List, NamedTuple,")
    self.emit(0, "                    Optional, Protocol, Sequence, Tuple, TypeVar, Union, TYPE_CHECKING)")
    self.emit(0, "import abc, collections, enum")
    if r.random() < 0.5:
      self.emit(0, "import sys, functools, contextlib, dataclasses")
    else:
      self.emit(0, "sys = functools = contextlib = dataclasses = None")
    self.emit(0, "T_ = TypeVar('T_')")
    self.emit(0, "G0 = " + r.choice(["0", "None", "[]", "{}", "'g'", "object()"]))
    self.emit(0, "G1: " + r.choice(["int = 1", "Optional[str] = None", "List[int] = []", "Any = ..."]))
    self.emit(0, "def helper(*a, **k):")
    self.emit(1, r.choice(["return a[0] if a else k", "return helper", "return lambda f: f", "pass"]))
    self.emit(0, "class Point:")
    self.emit(1, "__match_args__ = ('x', 'y')")
    self.emit(1, "def __init__(self, x=0, y=0): self.x = x; self.y = y")
    self.emit(0, "class Color(enum.Enum):")
    self.emit(1, "RED = 1")
    self.emit(1, "GREEN = 2")
    self.classes += ["Point"]
    ctx = Ctx("module", names=[])
    for _ in range(self.size):
      x = r.random()
      if x < 0.40:
        self.s_def(ctx, 0)
      elif x < 0.58:
        self.s_class(ctx, 0)
      else:
        self.stmt(ctx, 0)
      if self.budget <= 0:
        break
    if r.random() < 0.3:
      self.emit(0, "if __name__ == '__main__':")
      self.emit(1, f"{r.choice(self.funcs)}()")
    return "\n".join(self.out) + "\n"


def generate(rng: random.Random, size=None) -> str:
  """One hostile program.  Retries a few times if CPython refuses to compile it."""
  last = None
  for _ in range(6):
    g = HostileGen(random.Random(rng.getrandbits(64)), size=size)
    src = g.program()
    last = src
    try:
      import warnings
      with warnings.catch_warnings():
        warnings.simplefilter("ignore")
        compile(src, "<hostile>", "exec", dont_inherit=True)
      return src
    except (SyntaxError, ValueError, RecursionError, MemoryError):
      continue
  return last


# ---------------------------------------------------------------------------
# mutator

_INSERT_TOKENS = ["(", ")", "[", "]", "{", "}", ":", ",", ".", "=", "==", "*", "**", "lambda", "yield",
                  "await", "async", "return", "break", "continue", "if", "else", "for", "in", "not",
                  "is", "None", "pass", "import", "from", "class", "def", "try", "except", "finally",
                  "with", "as", "raise", "del", "global", "nonlocal", "assert", "while", "match", "case",
                  "@", "->", ":=", "...", "'", '"', "\\", "#", ";", "0", "1e", "0x", "f'{", "'''", "$", "?", "`",
                  "\t", "  ", "\x0c", " ", "​", "é", "print", "self", "_", "type", "*a", "**k", "!"]

MUTATION_KINDS = ["tok_delete", "tok_duplicate", "tok_swap", "tok_insert", "tok_replace",
                  "line_delete", "line_duplicate", "line_swap", "line_indent", "line_dedent",
                  "bracket_unbalance", "line_join", "line_split", "char_delete", "char_insert",
                  "truncate", "nul_byte", "keyword_swap", "tab_space_mix", "number_mangle",
                  "string_unterminate", "line_continuation", "form_feed", "crlf"]


def _tokens(text):
  """[(start_offset, end_offset, type, string)] of non-whitespace tokens; [] if tokenize fails."""
  try:
    lines = text.splitlines(keepends=True)
    offs = [0]
    for l in lines:
      offs.append(offs[-1] + len(l))
    out = []
    for tok in tokenize.generate_tokens(io.StringIO(text).readline):
      if tok.type in (tokenize.NEWLINE, tokenize.NL, tokenize.INDENT, tokenize.DEDENT,
                      tokenize.ENDMARKER, tokenize.COMMENT):
        continue
      (sr, sc), (er, ec) = tok.start, tok.end
      if sr - 1 >= len(offs) or er - 1 >= len(offs):
        continue
      out.append((offs[sr - 1] + sc, offs[er - 1] + ec, tok.type, tok.string))
    return out
  except Exception:  # tokenize raises many things on hostile text (SystemError on NUL)
    return []


def _mutate_once(r: random.Random, text: str, kind: str) -> str:
  lines = text.split("\n")
  if kind.startswith("tok_") or kind in ("keyword_swap", "number_mangle", "string_unterminate"):
    toks = _tokens(text)
    if not toks:
      kind = "char_delete"
    else:
      i = r.randrange(len(toks))
      s, e, tp, st = toks[i]
      if kind == "tok_delete":
        return text[:s] + text[e:]
      if kind == "tok_duplicate":
        return text[:e] + " " + st + text[e:]
      if kind == "tok_swap" and len(toks) > 1:
        j = min(len(toks) - 1, i + 1) if i + 1 < len(toks) else i - 1
        a, b = sorted([toks[i], toks[j]])
        return text[:a[0]] + b[3] + text[a[1]:b[0]] + a[3] + text[b[1]:]
      if kind == "tok_insert":
        return text[:s] + r.choice(_INSERT_TOKENS) + " " + text[s:]
      if kind == "tok_replace":
        return text[:s] + r.choice(_INSERT_TOKENS) + text[e:]
      if kind == "keyword_swap":
        kws = [t for t in toks if t[3] in keyword.kwlist or t[3] in ("match", "case", "type")]
        if kws:
          s, e, tp, st = r.choice(kws)
          return text[:s] + r.choice(keyword.kwlist) + text[e:]
        return text[:s] + r.choice(keyword.kwlist) + " " + text[s:]
      if kind == "number_mangle":
        nums = [t for t in toks if t[2] == tokenize.NUMBER]
        if nums:
          s, e, tp, st = r.choice(nums)
          return text[:s] + r.choice(["0" + st, st + "_", st + "e", "0b2", "0o8", st + "j" + st, "1__0", "9" * 400, "1e999", st + "."]) + text[e:]
        return text
      if kind == "string_unterminate":
        strs = [t for t in toks if t[2] == tokenize.STRING or "STRING" in tokenize.tok_name.get(t[2], "")]
        if strs:
          s, e, tp, st = r.choice(strs)
          return text[:e - 1] + text[e:]
        return text
      return text[:s] + text[e:]
  if kind == "line_delete" and len(lines) > 1:
    i = r.randrange(len(lines))
    return "\n".join(lines[:i] + lines[i + 1:])
  if kind == "line_duplicate":
    i = r.randrange(len(lines))
    return "\n".join(lines[:i + 1] + [lines[i]] + lines[i + 1:])
  if kind == "line_swap" and len(lines) > 2:
    i = r.randrange(len(lines) - 1)
    lines[i], lines[i + 1] = lines[i + 1], lines[i]
    return "\n".join(lines)
  if kind == "line_indent":
    i = r.randrange(len(lines))
    lines[i] = r.choice(["    ", " ", "\t", "  "]) + lines[i]
    return "\n".join(lines)
  if kind == "line_dedent":
    cands = [i for i, l in enumerate(lines) if l.startswith(" ")]
    if cands:
      i = r.choice(cands)
      k = r.choice([1, 2, 4])
      lines[i] = lines[i][min(k, len(lines[i]) - len(lines[i].lstrip())):]
      return "\n".join(lines)
    return text
  if kind == "bracket_unbalance":
    pos = [i for i, c in enumerate(text) if c in "()[]{}"]
    if pos:
      i = r.choice(pos)
      if r.random() < 0.5:
        return text[:i] + text[i + 1:]
      return text[:i] + r.choice("()[]{}") + text[i + 1:]
    return text + r.choice("([{")
  if kind == "line_join" and len(lines) > 1:
    i = r.randrange(len(lines) - 1)
    return "\n".join(lines[:i] + [lines[i] + r.choice([" ", "; ", ""]) + lines[i + 1].lstrip()] + lines[i + 2:])
  if kind == "line_split":
    i = r.randrange(len(lines))
    if len(lines[i]) > 2:
      k = r.randrange(1, len(lines[i]))
      lines[i:i + 1] = [lines[i][:k], lines[i][k:]]
    return "\n".join(lines)
  if kind == "char_delete" and text:
    i = r.randrange(len(text))
    return text[:i] + text[i + 1:]
  if kind == "char_insert":
    i = r.randrange(len(text) + 1)
    return text[:i] + r.choice(["(", ")", ":", "'", '"', "\\", "\n", " ", "#", "{", "}", "=", ".", ",", "\t", "@", "é", "\x0c", "0"]) + text[i:]
  if kind == "truncate" and len(text) > 4:
    return text[:r.randrange(1, len(text))]
  if kind == "nul_byte":
    i = r.randrange(len(text) + 1)
    return text[:i] + "\0" + text[i:]
  if kind == "tab_space_mix":
    cands = [i for i, l in enumerate(lines) if l.startswith("    ")]
    if cands:
      i = r.choice(cands)
      lines[i] = "\t" + lines[i][4:]
      return "\n".join(lines)
    return text
  if kind == "line_continuation":
    i = r.randrange(len(lines))
    lines[i] = lines[i] + r.choice(["\\", " \\", "\\ "])
    return "\n".join(lines)
  if kind == "form_feed":
    i = r.randrange(len(lines))
    lines[i] = r.choice(["\x0c" + lines[i], lines[i] + "\x0c", "\x0c"])
    return "\n".join(lines)
  if kind == "crlf":
    i = r.randrange(len(lines))
    if r.random() < 0.5:
      return text.replace("\n", "\r\n")
    lines[i] = lines[i] + "\r"
    return "\n".join(lines)
  return text


GENTLE_KINDS = ["same_class_token", "same_class_token", "same_class_token", "line_duplicate",
                "stmt_delete", "stmt_delete", "insert_pass", "comment_out", "swap_same_indent",
                "keyword_flip", "keyword_flip", "name_to_soft_keyword", "expr_to_none", "crlf",
                "form_feed", "async_toggle", "insert_stmt", "insert_stmt"]

_OP_CLASSES = [["+", "-", "*", "/", "//", "%", "@", "**", "&", "|", "^", "<<", ">>"],
               ["<", "<=", "==", "!=", ">", ">="],
               ["+=", "-=", "*=", "/=", "//=", "%=", "@=", "**=", "&=", "|=", "^=", "<<=", ">>="],
               ["and", "or"], ["is", "in"], ["break", "continue"], ["True", "False", "None", "..."],
               ["return", "yield", "raise"], ["if", "while"],
               ["int", "str", "list", "dict", "Any", "object"]]
_FLIPS = {"and": "or", "or": "and", "break": "continue", "continue": "break", "return": "yield",
          "yield": "return", "is": "==", "==": "is", "if": "while", "while": "if", "True": "None",
          "except": "except*", "finally": "else", "else": "finally", "in": "not in", "not": "",
          "pass": "return", "global": "nonlocal", "nonlocal": "global", "del": "assert",
          "raise": "return", "from": ",", "lambda": "lambda *", "for": "async for",
          "with": "async with", "def": "async def", "async": "", "await": "yield", "as": "as *",
          "case": "case *", "import": "import *", "class": "def"}
_INSERT_STMTS = ["pass", "return", "break", "continue", "yield", "raise", "x: int", "global G0",
                 "nonlocal x", "del x", "import os", "import typing", "x = yield", "await x",
                 "return x", "assert x, y", "x: int; y = 1", "print(x)", "x = (yield)",
                 "lambda: (yield)", "[x for x in y]", "x = [y := 1, y ** 2]", "type X = int",
                 "def f(): pass", "class K: pass", "with x: pass", "for x in y: pass",
                 "while x: break", "if x: pass", "async def g(): await x", "x = *y, z", "*x, = y",
                 "x, *y = z", "return (yield x)", "x = y = z", "from __future__ import annotations",
                 "__slots__ = ('a',)", "super().__init__()", "self.x: int = 0", "x: 'a#b'; y = 2",
                 "try: x\nfinally: pass"]
_STRING_SUBST = ["''", "b''", "'x'", "f'{0}'", "'a' 'b'", "f'{x!r:>{y}}'", "'%d' % x", "'\\n'"]
_EXPR_SUBST = ["None", "()", "...", "[]", "(yield)", "(await x)", "lambda: 0", "not x", "*x",
               "x if y else z", "x[::2]"]


def _gentle(r: random.Random, text: str, kind: str) -> str:
  """Edits that usually keep the text compilable."""
  lines = text.split("\n")
  if kind in ("same_class_token", "keyword_flip", "name_to_soft_keyword", "expr_to_none",
              "async_toggle"):
    toks = _tokens(text)
    if not toks:
      return text
    if kind == "same_class_token":
      s, e, tp, st = toks[r.randrange(len(toks))]
      if tp == tokenize.NAME and not keyword.iskeyword(st):
        names = sorted({t[3] for t in toks if t[2] == tokenize.NAME and not keyword.iskeyword(t[3])})
        return text[:s] + r.choice(names) + text[e:]
      if tp == tokenize.NUMBER:
        return text[:s] + r.choice(["0", "1", "-1", "2.5", "10**9", "0xff", "1_000", "1j", "True"]) + text[e:]
      for cls in _OP_CLASSES:
        if st in cls:
          return text[:s] + r.choice(cls) + text[e:]
      if tp == tokenize.STRING:
        return text[:s] + r.choice(_STRING_SUBST) + text[e:]
      return text
    if kind == "keyword_flip":
      c = [t for t in toks if t[3] in _FLIPS]
      if not c:
        return text
      s, e, tp, st = r.choice(c)
      return text[:s] + _FLIPS[st] + text[e:]
    if kind == "name_to_soft_keyword":
      c = [t for t in toks if t[2] == tokenize.NAME and not keyword.iskeyword(t[3])]
      if not c:
        return text
      s, e, tp, st = r.choice(c)
      return text[:s] + r.choice(["match", "case", "type", "_", "__class__", "__debug__", "self", "print"]) + text[e:]
    if kind == "expr_to_none":
      c = [t for t in toks if t[2] in (tokenize.NAME, tokenize.NUMBER, tokenize.STRING)
           and not keyword.iskeyword(t[3])]
      if not c:
        return text
      s, e, tp, st = r.choice(c)
      return text[:s] + r.choice(_EXPR_SUBST) + text[e:]
    if kind == "async_toggle":
      c = [t for t in toks if t[3] in ("def", "for", "with")]
      if not c:
        return text
      s, e, tp, st = r.choice(c)
      if text[max(0, s - 6):s] == "async ":
        return text[:s - 6] + text[s:]
      return text[:s] + "async " + text[s:]
  simple = [i for i, l in enumerate(lines)
            if l.strip() and not l.rstrip().endswith((":", ",", "(", "[", "{", "\\"))
            and not l.lstrip().startswith(("@", ")", "]", "}", '"""', "'''"))]
  if kind == "stmt_delete" and simple:
    i = r.choice(simple)
    return "\n".join(lines[:i] + lines[i + 1:])
  if kind == "line_duplicate" and simple:
    i = r.choice(simple)
    return "\n".join(lines[:i + 1] + [lines[i]] + lines[i + 1:])
  if kind in ("insert_pass", "insert_stmt") and simple:
    i = r.choice(simple)
    indent = lines[i][:len(lines[i]) - len(lines[i].lstrip())]
    st = "pass" if kind == "insert_pass" else r.choice(_INSERT_STMTS)
    new = [indent + x for x in st.split("\n")]
    return "\n".join(lines[:i] + new + lines[i:])
  if kind == "comment_out" and simple:
    i = r.choice(simple)
    indent = lines[i][:len(lines[i]) - len(lines[i].lstrip())]
    lines[i] = indent + "pass  # " + lines[i].lstrip()
    return "\n".join(lines)
  if kind == "swap_same_indent" and len(simple) > 1:
    i = r.choice(simple)
    ind = len(lines[i]) - len(lines[i].lstrip())
    same = [j for j in simple if j != i and len(lines[j]) - len(lines[j].lstrip()) == ind]
    if same:
      j = r.choice(same)
      lines[i], lines[j] = lines[j], lines[i]
    return "\n".join(lines)
  if kind in ("crlf", "form_feed"):
    return _mutate_once(r, text, kind)
  return text


def mutate(rng: random.Random, text: str, kinds=None):
  """Applies 1-3 random edits. Returns (mutant, 'kind+kind')."""
  n = rng.choice([1, 1, 1, 2, 3])
  used = []
  out = text
  for _ in range(n):
    if kinds is None and rng.random() < 0.62:
      k = rng.choice(GENTLE_KINDS)
      new = _gentle(rng, out, k)
    else:
      k = rng.choice(kinds or MUTATION_KINDS)
      new = _mutate_once(rng, out, k)
    if new != out:
      used.append(k)
      out = new
  if not used:
    out = _mutate_once(rng, text, "char_delete")
    used = ["char_delete"]
  return out, "+".join(used)


# ---------------------------------------------------------------------------
# syntactic nesting enumerator (C16)

STMT_SLOTS = [
    ("if", "then"), ("if", "else"),
    ("for", "body"), ("for", "else"),
    ("whileT", "body"),
    ("while", "body"), ("while", "else"),
    ("tryexc", "try"), ("tryexc", "except"),
    ("tryfin", "try"), ("tryfin", "finally"),
    ("tryfull", "try"), ("tryfull", "except"), ("tryfull", "else"), ("tryfull", "finally"),
    ("with", "body"),
    ("awith", "body"),
    ("afor", "body"), ("afor", "else"),
    ("match", "case"), ("match", "default"),
]
EXPR_CONSTRUCTS = ["comp", "genexp", "lambda"]
STMT_LEAVES = ["return", "break", "continue", "raise", "yield", "await", "plain"]
EXPR_LEAVES = ["yield", "await", "plain"]


def _ind(lines):
  return ["    " + l for l in lines]


def _wrap_stmt(kind, slot, inner, k):
  """Lines of construct `kind` with `inner` (list of lines) placed in `slot`."""
  x = [f"x = {k}"]
  if kind == "if":
    if slot == "then":
      return ["if c:"] + _ind(inner) + ["else:"] + _ind(x)
    return ["if c:"] + _ind(x) + ["else:"] + _ind(inner)
  if kind == "for":
    if slot == "body":
      return [f"for i{k} in a:"] + _ind(inner)
    return [f"for i{k} in a:"] + _ind(x) + ["else:"] + _ind(inner)
  if kind == "whileT":
    return ["while True:"] + _ind(inner)
  if kind == "while":
    if slot == "body":
      return ["while c:"] + _ind(inner)
    return ["while c:"] + _ind(x) + ["else:"] + _ind(inner)
  if kind == "tryexc":
    if slot == "try":
      return ["try:"] + _ind(inner) + ["except E:"] + _ind(x)
    return ["try:"] + _ind(["x = g()"]) + [f"except E as e{k}:"] + _ind(inner)
  if kind == "tryfin":
    if slot == "try":
      return ["try:"] + _ind(inner) + ["finally:"] + _ind(x)
    return ["try:"] + _ind(["x = g()"]) + ["finally:"] + _ind(inner)
  if kind == "tryfull":
    parts = {"try": ["x = g()"], "except": x, "else": [f"y = {k}"], "finally": [f"z = {k}"]}
    parts[slot] = inner
    return (["try:"] + _ind(parts["try"]) + ["except E:"] + _ind(parts["except"]) +
            ["else:"] + _ind(parts["else"]) + ["finally:"] + _ind(parts["finally"]))
  if kind == "with":
    return [f"with a as w{k}:"] + _ind(inner)
  if kind == "awith":
    return [f"async with a as w{k}:"] + _ind(inner)
  if kind == "afor":
    if slot == "body":
      return [f"async for i{k} in a:"] + _ind(inner)
    return [f"async for i{k} in a:"] + _ind(x) + ["else:"] + _ind(inner)
  if kind == "match":
    if slot == "case":
      return ["match m:", "    case 1:"] + _ind(_ind(x)) + [f"    case [p{k}, *q{k}] if p{k}:"] + _ind(_ind(inner)) + ["    case _:"] + _ind(_ind(["y = 0"]))
    return ["match m:", f"    case {{'k': v{k}}}:"] + _ind(_ind(x)) + ["    case _:"] + _ind(_ind(inner))
  raise ValueError(kind)


def _wrap_expr(kind, inner, k):
  if kind == "comp":
    return f"[{inner} for i{k} in a if i{k}]"
  if kind == "genexp":
    return f"({inner} for i{k} in a)"
  if kind == "lambda":
    return f"(lambda z{k}: {inner})"
  raise ValueError(kind)


_STMT_LEAF = {"return": "return a", "break": "break", "continue": "continue", "raise": "raise E",
              "yield": "x = yield a", "await": "x = await a", "plain": "x = a"}
_EXPR_LEAF = {"yield": "(yield a)", "await": "(await a)", "plain": "a"}


def nesting_chains(depth):
  """All chains (tuple of constructs, leaf) with 1..depth constructs."""
  stmt = [("s",) + s for s in STMT_SLOTS]
  expr = [("e", e, "") for e in EXPR_CONSTRUCTS]
  for n in range(1, depth + 1):
    for ns in range(0, n + 1):           # ns statement constructs followed by n-ns expression constructs
      ne = n - ns
      for sc in itertools.product(stmt, repeat=ns):
        for ec in itertools.product(expr, repeat=ne):
          leaves = EXPR_LEAVES if ne else STMT_LEAVES
          for leaf in leaves:
            yield sc + ec, leaf


def render_chain(chain, leaf, fname, bare_return=False):
  """Source of one function for a chain; the caller decides whether it compiles."""
  is_async = leaf == "await" or any(c[1] in ("awith", "afor") for c in chain)
  exprs = [c for c in chain if c[0] == "e"]
  stmts = [c for c in chain if c[0] == "s"]
  if exprs:
    e = _EXPR_LEAF[leaf]
    for k, c in reversed(list(enumerate(exprs))):
      e = _wrap_expr(c[1], e, len(stmts) + k)
    inner = [f"x = {e}"]
  else:
    s = _STMT_LEAF[leaf]
    if leaf == "return" and bare_return:
      s = "return"
    inner = [s]
  # something after the innermost statement so that fall-through edges exist
  inner = inner + ["x = 99"] if leaf in ("plain", "yield", "await") or exprs else ["x = 98"] + inner
  for k, c in reversed(list(enumerate(stmts))):
    inner = _wrap_stmt(c[1], c[2], inner, k) + [f"u{k} = x"]
  head = f"{'async ' if is_async else ''}def {fname}(a, c, m, g, E):"
  return "\n".join([head] + _ind(["x = 0"] + inner + ["return" if bare_return else "return x"])) + "\n"


def chain_label(chain, leaf):
  return ">".join(f"{c[1]}{'.' + c[2] if c[2] else ''}" for c in chain) + ">" + leaf


def nesting_cases(depth):
  """Yields (label, source) of every nesting chain that CPython compiles."""
  k = 0
  for chain, leaf in nesting_chains(depth):
    k += 1
    name = f"f{k}"
    src = render_chain(chain, leaf, name)
    yield chain_label(chain, leaf), name, src, (chain, leaf)
