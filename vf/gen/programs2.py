"""C01 idiom programs: a second, independent program family for the C01 differential.

vf/gen/programs.py is frozen (its workloads are pre-swept); this family covers two Python-VM dimensions it
does not reach, found by the third seeding round:

  * truthiness of instances -- classes that define __bool__/__len__ themselves, classes that only INHERIT
    them (from a user class or from list/dict/str/tuple/set), instances that are falsy or truthy at run
    time, tested by `a if x else b`, `x or b`, `x and b`, `not x` + early return, and if/else statements;
  * per-key tracking of dict literals -- an existing constant key re-assigned (or a new key stored) in one
    arm of a branch pytype cannot decide, read back after the join through a constant subscript or .get().

Programs are loop-free and deterministic; every module-level name is a judged item.
"""

CONSTS = [("1", "int"), ("'s'", "str"), ("None", "None"), ("1.5", "float"), ("b'b'", "bytes"),
          ("(1, 's')", "tuple"), ("[1]", "list"), ("True", "bool")]

BUILTIN_BASES = [("list", "[]", "[1]"), ("dict", "{}", "{'a': 1}"), ("str", "''", "'x'"),
                 ("tuple", "()", "(1,)"), ("set", "()", "([1])")]


def _two(rng):
  a, b = rng.sample(CONSTS, 2)
  return a[0], b[0]


class _Gen:
  def __init__(self, rng):
    self.rng = rng
    self.out = []
    self.n = 0

  def name(self, stem):
    self.n += 1
    return f"{stem}{self.n}"

  def emit(self, text):
    self.out.append(text)

  # -- an expression pytype cannot decide, with a known run-time value ---------------------------------
  def undecided(self, value):
    rng = self.rng
    f = self.name("cond")
    lst = self.name("seq")
    k = rng.randint(1, 3)
    self.emit(f"{lst} = [{', '.join(str(i) for i in range(k))}]")
    if value:
      self.emit(f"def {f}():\n    return len({lst}) > {k - 1}")
    else:
      self.emit(f"def {f}():\n    return len({lst}) > {k + rng.randint(0, 2)}")
    return f"{f}()"

  # -- truthiness ----------------------------------------------------------------------------------
  def truth_class(self):
    """Emits a class hierarchy; returns (constructor expression, run-time truth value)."""
    rng = self.rng
    kind = rng.choice(["own_len", "own_bool", "inh_len", "inh_bool", "inh2", "builtin", "builtin2", "plain",
                       "override_true", "inh_len", "inh_bool", "builtin"])
    truthy = rng.random() < 0.4
    base = self.name("Base")
    if kind in ("own_len", "inh_len", "inh2"):
      self.emit(f"class {base}:\n    def __init__(self, items):\n        self.items = items\n"
                f"    def __len__(self):\n        return len(self.items)")
      arg = "[1, 2]" if truthy else "[]"
    elif kind in ("own_bool", "inh_bool", "override_true"):
      self.emit(f"class {base}:\n    def __init__(self, on):\n        self.on = on\n"
                f"    def __bool__(self):\n        return self.on")
      arg = "True" if truthy else "False"
    elif kind in ("builtin", "builtin2"):
      b, falsy_arg, truthy_arg = rng.choice(BUILTIN_BASES)
      sub = self.name("Sub")
      self.emit(f"class {sub}({b}):\n    pass")
      cls = sub
      if kind == "builtin2":
        sub2 = self.name("Sub")
        self.emit(f"class {sub2}({sub}):\n    def tag(self):\n        return 1")
        cls = sub2
      a = truthy_arg if truthy else falsy_arg
      return f"{cls}({a})", truthy
    else:    # plain: always truthy
      self.emit(f"class {base}:\n    def __init__(self, v):\n        self.v = v")
      return f"{base}(0)", True
    if kind in ("own_len", "own_bool"):
      return f"{base}({arg})", truthy
    sub = self.name("Sub")
    if kind == "override_true":
      self.emit(f"class {sub}({base}):\n    def __bool__(self):\n        return True")
      return f"{sub}({arg})", True
    if rng.random() < 0.5:
      self.emit(f"class {sub}({base}):\n    pass")
      ctor = f"{sub}({arg})"
    else:
      self.emit(f"class {sub}({base}):\n    def __init__(self, name, x):\n        {base}.__init__(self, x)\n"
                f"        self.name = name")
      ctor = f"{sub}('n', {arg})"
    if kind == "inh2":
      sub2 = self.name("Sub")
      self.emit(f"class {sub2}({sub}):\n    def tag(self):\n        return 's'")
      ctor = ctor.replace(sub + "(", sub2 + "(", 1)
    return ctor, truthy

  def truth_block(self):
    rng = self.rng
    ctor, _ = self.truth_class()
    obj = self.name("obj")
    self.emit(f"{obj} = {ctor}")
    for _ in range(rng.randint(2, 4)):
      a, b = _two(rng)
      r = self.name("t")
      form = rng.choice(["ifexp", "or", "and", "not_ifexp", "stmt", "func_not", "func_if", "inline"])
      if form == "ifexp":
        self.emit(f"{r} = {a} if {obj} else {b}")
      elif form == "or":
        self.emit(f"{r} = {obj} or {b}")
      elif form == "and":
        self.emit(f"{r} = {obj} and {b}")
      elif form == "not_ifexp":
        self.emit(f"{r} = {a} if not {obj} else {b}")
      elif form == "stmt":
        self.emit(f"if {obj}:\n    {r} = {a}\nelse:\n    {r} = {b}")
      elif form == "func_not":
        f = self.name("f")
        self.emit(f"def {f}(x):\n    if not x:\n        return {a}\n    return {b}")
        self.emit(f"{r} = {f}({obj})")
      elif form == "func_if":
        f = self.name("f")
        self.emit(f"def {f}(x):\n    y = {a}\n    if x:\n        y = {b}\n    return y")
        self.emit(f"{r} = {f}({obj})")
      else:
        self.emit(f"{r} = {a} if {ctor} else {b}")

  # -- dict literal, constant keys ---------------------------------------------------------------------
  def dict_block(self):
    rng = self.rng
    keys = rng.sample(["k", "j", "m", "id", "x"], rng.randint(2, 3))
    vals = rng.sample(CONSTS, len(keys))
    d = self.name("d")
    self.emit(f"{d} = {{{', '.join(f'{k!r}: {v[0]}' for k, v in zip(keys, vals))}}}")
    taken = rng.random() < 0.35
    cond = self.undecided(taken)
    key = rng.choice(keys)
    other = rng.choice([c for c in CONSTS if c not in vals])
    form = rng.choice(["overwrite", "overwrite", "overwrite_else", "newkey", "both_arms", "nested_if"])
    if form == "overwrite":
      self.emit(f"if {cond}:\n    {d}[{key!r}] = {other[0]}")
    elif form == "overwrite_else":
      self.emit(f"if {cond}:\n    pass\nelse:\n    {d}[{key!r}] = {other[0]}")
    elif form == "newkey":
      self.emit(f"if {cond}:\n    {d}['new'] = {other[0]}")
    elif form == "both_arms":
      third = rng.choice(CONSTS)
      self.emit(f"if {cond}:\n    {d}[{key!r}] = {other[0]}\nelse:\n    {d}[{key!r}] = {third[0]}")
    else:
      cond2 = self.undecided(rng.random() < 0.5)
      self.emit(f"if {cond}:\n    if {cond2}:\n        {d}[{key!r}] = {other[0]}")
    for k in keys:
      r = self.name("v")
      if rng.random() < 0.7:
        self.emit(f"{r} = {d}[{k!r}]")
      else:
        self.emit(f"{r} = {d}.get({k!r})")
    if rng.random() < 0.4:
      f = self.name("g")
      self.emit(f"def {f}():\n    return {d}[{key!r}]")
      self.emit(f"{self.name('v')} = {f}()")

  def generate(self):
    rng = self.rng
    blocks = [self.truth_block, self.dict_block]
    for _ in range(rng.randint(2, 4)):
      rng.choice(blocks)()
    return "\n".join(self.out) + "\n"


def generate(rng):
  return _Gen(rng).generate()
