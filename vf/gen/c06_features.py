"""C06 upstream "feature programs": stub shapes the C01 generator never produces.

  * functions / methods / static / class methods whose parameter lists mix
    positional-only, positional, *args or bare *, keyword-only parameters in
    EVERY default/required order (incl. a defaulted one before a required one),
    **kwargs, and defaults of several kinds;
  * nested classes (two levels) with attributes and methods, class-valued
    attributes, and values typed by nested classes: module variables, container
    elements, instance attributes, annotated and inferred function / method
    returns.

`generate(rng)` returns source text that imports nothing (empty typeshed).
Names and literal types are randomised; the program is loop-free and runs.
"""
from __future__ import annotations

import random

LITS = [("int", ["0", "7", "-3"]), ("str", ["'s'", "'ab'"]), ("float", ["1.5", "0.25"]),
        ("bool", ["True", "False"]), ("bytes", ["b'x'"]), ("none", ["None"]),
        ("tuple", ["(1, 'a')", "('x',)"]), ("list", ["[1, 2]", "['a']"]), ("dict", ["{'k': 1}"])]
ANN = {"int": "1", "str": "'s'", "float": "1.5", "bool": "True", "bytes": "b'b'"}


class _G:
  def __init__(self, rng):
    self.r = rng
    self.n = 0
    self.out = []

  def nm(self, p):
    self.n += 1
    return f"{p}{self.n}"

  def lit(self, kinds=None):
    k, vals = self.r.choice([x for x in LITS if kinds is None or x[0] in kinds])
    return self.r.choice(vals)

  # -- parameter lists -----------------------------------------------------------
  def params(self, first=None, force_kw_pattern=None):
    """Returns (text, names, annotated {name: ann})."""
    r = self.r
    parts, names, anns = [], [], {}
    if first:
      parts.append(first)

    def one(prefix, default):
      n = self.nm(prefix)
      s = n
      if r.random() < 0.35:
        a = r.choice(list(ANN))
        s += f": {a}"
        anns[n] = a
        if default:
          s += " = " + ANN[a]
      elif default:
        s += "=" + self.lit()
      names.append(n)
      return s

    npo = r.choice([0, 0, 1, 2])
    npos = r.choice([0, 1, 1, 2])
    ndef = r.randint(0, npo + npos)
    tot = npo + npos
    for i in range(tot):
      parts.append(one("p", i >= tot - ndef))
      if npo and i == npo - 1:
        parts.append("/")
    star = r.choice(["bare", "bare", "args", "none"])
    pattern = force_kw_pattern
    if pattern is None and star != "none":
      pattern = [r.random() < 0.5 for _ in range(r.randint(1, 4))]   # True = has a default
    if pattern:
      parts.append("*" + (self.nm("args") if star == "args" else ""))
      for has_default in pattern:
        parts.append(one("k", has_default))
    if r.random() < 0.25:
      parts.append("**" + self.nm("kw"))
    return ", ".join(parts), names, anns

  def ret_expr(self, names, anns):
    r = self.r
    annotated = [n for n in names if n in anns]
    if annotated and r.random() < 0.4:
      return r.choice(annotated)
    return self.lit()

  def function(self, indent="", first=None, deco=None, pattern=None, name=None):
    name = name or self.nm("f")
    text, names, anns = self.params(first, pattern)
    lines = []
    if deco:
      lines.append(f"{indent}@{deco}")
    lines.append(f"{indent}def {name}({text}):")
    lines.append(f"{indent}    return {self.ret_expr(names, anns)}")
    return lines, name

  # -- nested classes --------------------------------------------------------------
  def tree(self):
    r = self.r
    O, I, D = self.nm("Outer"), self.nm("Inner"), self.nm("Deep")
    w, d, ia, ra = self.nm("w"), self.nm("d"), self.nm("ia"), self.nm("ra")
    parent, deep, root, many, kind, dm = (self.nm(x) for x in ("parent", "deep", "root", "many", "kind", "dm"))
    o = self.out
    o += [f"class {O}:",
          f"    class {I}:",
          f"        {w} = {self.lit(('int', 'str', 'float'))}",
          f"        class {D}:",
          f"            {d} = {self.lit(('int', 'str', 'bytes'))}",
          f"            def {dm}(self):",
          f"                return {self.lit(('int', 'str', 'tuple'))}",
          f"        def __init__(self):",
          f"            self.{ia} = {self.lit()}",
          f"        def {parent}(self):",
          f"            return {O}()",
          f"        def {deep}(self):",
          f"            return {O}.{I}.{D}()"]
    ml, _ = self.function("        ", "self", pattern=[True, False])
    o += ml
    o += [f"    {kind} = {I}",
          f"    def __init__(self):",
          f"        self.{ra} = {O}.{I}()",
          f"    def {root}(self):",
          f"        return {O}.{I}()",
          f"    def {many}(self):",
          f"        return [{O}.{I}(), {O}.{I}()]"]
    for _ in range(r.randint(1, 2)):
      kindm = r.choice(["self", "self", "static", "cls"])
      ml, _ = self.function("    ", {"self": "self", "cls": "cls", "static": None}[kindm],
                            {"static": "staticmethod", "cls": "classmethod"}.get(kindm),
                            name=self.nm("m"))
      o += ml
    node, nodes, nmap, pair, opt = (self.nm(x) for x in ("node", "nodes", "nmap", "pair", "opt"))
    first, inferred, deepf = self.nm("first"), self.nm("inferred"), self.nm("deepf")
    o += [f"{node} = {O}.{I}()",
          f"{nodes} = [{O}.{I}()]",
          f"{nmap} = {{'k': {O}.{I}.{D}()}}",
          f"{pair} = ({O}(), {O}.{I}())",
          f"{opt} = {O}.{I}() if len('{w}') > 99 else None",
          f"def {first}(t: {O}) -> {O}.{I}:",
          f"    return t.{root}()",
          f"def {inferred}(t):",
          f"    return {O}.{I}()",
          f"def {deepf}(flag=True):",
          f"    return {O}.{I}.{D}() if flag else {O}()"]

  def flat_class(self):
    C = self.nm("Flat")
    o = self.out
    o += [f"class {C}:", f"    {self.nm('tag')} = {self.lit()}"]
    if self.r.random() < 0.6:
      text, names, anns = self.params("self")
      o += [f"    def __init__({text}):", f"        self.{self.nm('at')} = {self.lit()}"]
    for _ in range(self.r.randint(1, 3)):
      kindm = self.r.choice(["self", "self", "static", "cls"])
      ml, _ = self.function("    ", {"self": "self", "cls": "cls", "static": None}[kindm],
                            {"static": "staticmethod", "cls": "classmethod"}.get(kindm),
                            name=self.nm("m"))
      o += ml
    o.append(f"{self.nm('flat')} = {C}" + "  # class alias")

  # -- generic classes with several parameterised bases -------------------------------
  def generics(self):
    """`class Rec(Tagged[T], Keyed[S, T])` & co.  What A itself infers for members read through
    an instance (`k = rec.get_key()`) is paired with the same expression for the downstream."""
    r = self.r
    o = self.out
    T, S = self.nm("T"), self.nm("S")
    Tag, Key, Rec = self.nm("Tagged"), self.nm("Keyed"), self.nm("Record")
    tag, key, val = self.nm("tag"), self.nm("key"), self.nm("val")
    gt, gk, gv = self.nm("get_tag"), self.nm("get_key"), self.nm("get_val")
    o += [f"{T} = TypeVar('{T}')", f"{S} = TypeVar('{S}')",
          f"class {Tag}(Generic[{T}]):",
          f"    {tag}: {T}",
          f"    def {gt}(self) -> {T}:",
          f"        return self.{tag}",
          f"class {Key}(Generic[{S}, {T}]):",
          f"    {key}: {S}",
          f"    {val}: {T}",
          f"    def {gk}(self) -> {S}:",
          f"        return self.{key}",
          f"    def {gv}(self) -> {T}:",
          f"        return self.{val}"]
    # the first shape has a TypeVar heading an earlier base's list and in the tail of a later one
    shape = r.choice(["head-in-later-tail", "head-in-later-tail", "head-in-later-tail", "benign"])
    if shape == "head-in-later-tail":
      bases = f"{Tag}[{T}], {Key}[{S}, {T}]"
    else:
      bases = f"{Key}[{S}, {T}], {Tag}[{T}]"
    o += [f"class {Rec}({bases}):",
          f"    def __init__(self, {key}: {S}, {val}: {T}):",
          f"        self.{key} = {key}",
          f"        self.{val} = {val}",
          f"        self.{tag} = {val}"]
    kinds = [("int", "1"), ("str", "'one'"), ("bytes", "b'b'"), ("float", "2.5"), ("bool", "True")]
    (ka, va), (kb, vb) = r.sample(kinds, 2)
    rec = self.nm("rec")
    o.append(f"{rec} = {Rec}({va}, {vb})")
    for label, expr in (("k", f"{rec}.{gk}()"), ("v", f"{rec}.{gv}()"), ("t", f"{rec}.{gt}()"),
                        ("ka", f"{rec}.{key}"), ("ta", f"{rec}.{tag}")):
      n = self.nm("rec_" + label)
      o.append(f"{n} = {expr}")
      self.pairs.append((n, "{M}." + expr))
    (kc, vc), (kd, vd) = r.sample(kinds, 2)
    mk = self.nm("make")
    o += [f"def {mk}(n: {kc}) -> {Rec}[{kc}, {kd}]:",
          f"    return {Rec}(n, {vd})"]
    for label, meth in (("k", gk), ("t", gt)):
      n = self.nm("made_" + label)
      o.append(f"{n} = {mk}({vc}).{meth}()")
      self.pairs.append((n, "{M}." + f"{mk}({vc}).{meth}()"))

  # -- values typed by parameterised classes of a third module (bundled `collections`) ----
  def collections_block(self):
    r = self.r
    o = self.out
    elems = [("1, 2", "int"), ("'a', 'b'", "str"), ("b'x'", "bytes"), ("1.5", "float")]
    e1, _ = r.choice(elems)
    e2, _ = r.choice(elems)
    e3, a3 = r.choice(elems)
    q, dd, od, Buf, cattr, items, buf, mk, grp = (self.nm(x) for x in (
        "queue", "counts", "ordered", "Buffer", "pending", "items", "buf", "mkq", "group"))
    o += [f"{q} = collections.deque([{e1}])",
          f"{dd} = collections.defaultdict(int)",
          f"{dd}['k'] += 1",
          f"{od} = collections.OrderedDict([('k', {e2.split(',')[0]})])",
          f"class {Buf}:",
          f"    {cattr} = collections.deque([{e2}])",
          f"    def __init__(self):",
          f"        self.{items} = collections.deque([{e3}])",
          f"{buf} = {Buf}()",
          f"def {mk}(x: {a3}):",
          f"    return collections.deque([x])",
          f"def {grp}(word: str):",
          f"    out = collections.defaultdict(list)",
          f"    out[word].append(len(word))",
          f"    return out"]
    for label, expr in (("head", f"{q}[0]"), ("item", f"{buf}.{items}[0]"), ("pend", f"{buf}.{cattr}"),
                        ("made", f"{mk}({e3.split(',')[0]})"), ("grouped", f"{grp}('w')"),
                        ("cnt", f"{dd}['k']")):
      n = self.nm(label)
      o.append(f"{n} = {expr}")
      self.pairs.append((n, "{M}." + expr))

  def build(self):
    r = self.r
    self.pairs = []
    self.out += ["import collections", "from typing import Generic, TypeVar"]
    # every default/required order of two and three keyword-only parameters shows up regularly
    patterns = [[True, False], [False, True], [True, True], [False, False],
                [True, False, True], [False, True, False], [True, True, False], [True, False, False]]
    r.shuffle(patterns)
    for p in patterns[:r.randint(2, 4)]:
      fl, _ = self.function(pattern=p)
      self.out += fl
    for _ in range(r.randint(1, 3)):
      fl, _ = self.function()
      self.out += fl
    if r.random() < 0.85:
      self.tree()
    if r.random() < 0.7:
      self.flat_class()
    if r.random() < 0.8:
      self.generics()
    if r.random() < 0.8:
      self.collections_block()
    for _ in range(r.randint(1, 3)):
      self.out.append(f"{self.nm('v')} = {self.lit()}")
    return "\n".join(self.out) + "\n"


def generate_with_pairs(rng: random.Random):
  """(source, pairs).  pair = (name A binds to an expression, the same expression as the
  downstream module writes it, with `{M}` for the module reference)."""
  for _ in range(10):
    g = _G(rng)
    src = g.build()
    try:
      compile(src, "<c06-feature>", "exec", dont_inherit=True)
      return src, list(g.pairs)
    except SyntaxError:
      continue
  return ("def f(*, a=1, b):\n    return b\nclass T:\n    class N:\n        w = 1\nn = T.N()\nv = 1\n", [])


def generate(rng: random.Random) -> str:
  return generate_with_pairs(rng)[0]
