"""Seeded generator of error-rich programs (shared by C03 and C04).

A program is a fixed prelude of helper definitions followed by a random
selection of *placement blocks*.  Every block plants ground mistakes (operand
type errors, missing attributes, calls of None, bad calls, bad annotations,
wrong return types, undefined names, bad imports ...) in a source-position
arrangement the directive machinery treats specially: multi-line calls with the
mistake on the first / middle / last line, nested calls sharing lines,
decorator vs def lines, implicit `return None` against `-> int`, `with` blocks
with returns, comprehension / subscript / compare lines, several mistakes on one
line, the same class on adjacent lines, backslash continuations, semicolons,
multi-line strings, import lines.

The generator never needs to know which error pytype reports where: the checks
read the real error report.  All programs compile under CPython 3.12.
"""
from __future__ import annotations

import random
import warnings

PRELUDE = '''\
import collections
import enum
from typing import Any, Dict, List, Optional, Protocol, Tuple, Union

def f2(a, b):
  return a

def gi(x: int) -> int:
  return x

def gs(s: str, n: int = 0) -> str:
  return s

def kw(*, k: int = 0) -> int:
  return k

class A:
  z: int = 0
  def __init__(self, v: int = 0) -> None:
    self.v = v
  def m(self, p: str) -> str:
    return p
  def chain(self) -> "A":
    return self
  def __enter__(self) -> "A":
    return self
  def __exit__(self, *a) -> None:
    return None

class Abs(Protocol):
  def am(self) -> int: ...

class Color(enum.Enum):
  RED = 1
  GREEN = 2

def deco(fn):
  return fn

def decof(n: int):
  def wrap(fn):
    return fn
  return wrap

none_val = None
int_val = 1
cond = gi(1) > 0
'''


class EGen:
  """One program."""

  def __init__(self, rng: random.Random):
    self.r = rng
    self.n = 0
    self.kinds = []

  # -- atoms ----------------------------------------------------------------
  def fresh(self, p="v"):
    self.n += 1
    return f"{p}{self.n}"

  def undefined(self):
    return self.fresh("undefined_")

  def mistake(self):
    """An expression that is a ground mistake (one reported error, usually)."""
    r = self.r
    k = r.randrange(30)
    if k == 0: return "1 + 'a'"
    if k == 1: return "'a' - 1"
    if k == 2: return "[].foo"
    if k == 3: return "(1).bar"
    if k == 4: return "A().nope"
    if k == 5: return "none_val()"
    if k == 6: return "int_val()"
    if k == 7: return "f2(1, 2, 3)"
    if k == 8: return "f2(1)"
    if k == 9: return "gi('s')"
    if k == 10: return "gs(1)"
    if k == 11: return "gi(x=1, y=2)"
    if k == 12: return "gi(1, x=2)"
    if k == 13: return "kw(1)"
    if k == 14: return "A().m(2)"
    if k == 15: return "A(1, 2)"
    if k == 16: return self.undefined()
    if k == 17: return "{'a': 1}[1.0]"
    if k == 18: return "[1]['x']"
    if k == 19: return "(1 < 'a')"
    if k == 20: return "Abs()"
    if k == 21: return "collections.nope"
    if k == 22: return "reveal_type(1)"
    if k == 23: return "(-'s')"
    if k == 24: return "len(1)"
    if k == 25: return "int('1', 2, 3)"
    if k == 26: return "A('s')"
    if k == 27: return "gs('a', 'b')"
    if k == 28: return "'s'.zork"
    return "kw(z=1)"

  def call_mistake(self):
    return self.r.choice(["gi('s')", "gs(1)", "A().m(2)", "len(1)", "gs('a', 'b')", "A('s')"])

  def clean(self):
    return self.r.choice(["gi(1)", "2", "'t'", "gs('u')", "A()", "[1]", "int_val", "A().v"])

  def either(self, p=0.6):
    return self.mistake() if self.r.random() < p else self.clean()

  # -- placement blocks -------------------------------------------------------
  def b_single(self):
    return [f"{self.fresh()} = {self.mistake()}"]

  def b_same_line(self):
    k = self.r.randrange(4)
    if k == 0:
      return [f"{self.fresh()} = f2({self.mistake()}, {self.mistake()})"]
    if k == 1:
      return [f"{self.fresh()} = ({self.mistake()}, {self.mistake()}, {self.mistake()})"]
    if k == 2:
      return [f"{self.fresh()} = [{self.mistake()}, {self.clean()}, {self.mistake()}]"]
    return [f"{self.fresh()} = f2({self.mistake()}, {self.mistake()}, {self.clean()})"]

  def b_adjacent(self):
    m = self.r.choice(["gi('%s')", "[].%s", "1 + '%s'", "A().no_%s", "f2(1, 2, '%s')"])
    n = self.r.choice([2, 3])
    return [f"{self.fresh()} = {m % chr(97 + i)}" for i in range(n)]

  def b_mlcall(self):
    """Three-argument call over several lines; mistake position varies."""
    v = self.fresh()
    callee = self.r.choice(["f2", "f2", "gs", "A", "print", "dict"])
    pos = self.r.randrange(3)
    args = [self.clean(), self.clean(), self.clean()]
    args[pos] = self.mistake()
    if self.r.random() < 0.35:
      args[self.r.randrange(3)] = self.mistake()
    style = self.r.randrange(4)
    if style == 0:
      pad = " " * (len(v) + 3 + len(callee) + 1)
      return [f"{v} = {callee}({args[0]},", f"{pad}{args[1]},", f"{pad}{args[2]})"]
    if style == 1:
      return [f"{v} = {callee}(", f"    {args[0]},", f"    {args[1]},", f"    {args[2]},", ")"]
    if style == 2:
      return [f"{v} = {callee}(", f"    {args[0]}, {args[1]},", f"    {args[2]})"]
    return [f"{v} = {callee}({args[0]}, {args[1]},", f"    {args[2]}", ")"]

  def b_nested(self):
    v = self.fresh()
    k = self.r.randrange(5)
    if k == 0:
      return [f"{v} = f2(gi({self.mistake()}), gi(", f"    {self.mistake()}))"]
    if k == 1:
      return [f"{v} = f2(gs(gi('a'),", "          gi('b')),", "       gs(1))"]
    if k == 2:
      return [f"{v} = f2(1,", f"       f2({self.call_mistake()},",
              f"          {self.call_mistake()}))"]
    if k == 3:
      return [f"{v} = gi(f2({self.either()},", f"         {self.either()}),",
              f"      {self.either()})"]
    return [f"{v} = f2(f2({self.mistake()}, 1), f2(1,", f"    {self.mistake()})) + f2(",
            f"    {self.mistake()}, 2)"]

  def b_chain(self):
    v = self.fresh()
    k = self.r.randrange(3)
    if k == 0:
      return [f"{v} = (A()", "     .m(1)", "     .nope)"]
    if k == 1:
      return [f"{v} = (A().chain()", "     .chain()", f"     .m({self.either()})", "     .zork)"]
    return [f"{v} = A().chain(", "    ).m(", "    2)"]

  def _body_ret(self):
    return self.r.choice(["return 1", "return 's'", "pass", "return gi('q')"])

  def b_decorated(self):
    h = self.fresh("h")
    decs = []
    for _ in range(self.r.choice([1, 2, 2, 3])):
      decs.append(self.r.choice([
          "@deco", f"@{self.undefined()}", "@decof('s')", "@decof(1)", "@gi", "@gi('q')",
          "@decof(", "@A().nope", "@deco  # keep"]))
    out = []
    for d in decs:
      if d == "@decof(":
        out += ["@decof(", f"    {self.r.choice(['1', repr('s')])})"]
      else:
        out.append(d)
    k = self.r.randrange(6)
    if k == 0:
      out.append(f"def {h}(x: int = 's'):")
    elif k == 1:
      out.append(f"def {h}(x={self.mistake()}):")
    elif k == 2:
      out.append(f"def {h}(x: 1):")
    elif k == 3:
      out += [f"def {h}(a: int = 's',", f"       b={self.mistake()},", "       ) -> int:"]
    elif k == 4:
      out.append(f"def {h}(x) -> int:")
    else:
      out.append(f"def {h}():")
    out.append("  " + self._body_ret())
    return out

  def b_decorated_class(self):
    c = self.fresh("K")
    d = self.r.choice([f"@{self.undefined()}", "@decof('s')", "@deco"])
    base = self.r.choice(["A", f"A, {self.undefined()}", "1", "A,\n    " + self.undefined()])
    out = [d] + f"class {c}({base}):".split("\n")
    out.append(f"  w = {self.either()}")
    if self.r.random() < 0.5:
      out += [f"  def m(self, p: int) -> {self.r.choice(['str', 'int'])}:", f"    return {self.either()}"]
    return out

  def b_implicit(self):
    h = self.fresh("h")
    k = self.r.randrange(7)
    if k == 0:
      return [f"def {h}(c) -> int:", "  if c:", "    return 1"]
    if k == 1:
      return [f"def {h}(c) -> int:", "  if c:", "    return 1", "  f2(1,", f"     {self.either()})"]
    if k == 2:
      return [f"def {h}(c) -> str:", f"  {self.fresh()} = {self.either()}"]
    if k == 3:
      return [f"def {h}(c) -> int:", "  def inner() -> int:", "    if c:", "      return 2",
              f"  {self.fresh()} = {self.either()}", "  return inner()"]
    if k == 4:
      return [f"def {h}(c) -> int:", "  try:", "    if c:", "      return 1", "  finally:",
              f"    {self.fresh()} = {self.either()}"]
    if k == 5:
      return [f"def {h}(c) -> int:", "  with A() as a:", "    if c:", "      return 1",
              f"    {self.fresh()} = {self.either()}"]
    return [f"def {h}(c) -> int:", "  if c:", "    return 1", f"  {self.fresh()} = [", f"      {self.either()},",
            f"      {self.either()}]"]

  def b_with(self):
    h = self.fresh("h")
    k = self.r.randrange(6)
    if k == 0:
      return [f"def {h}(y) -> int:", "  with A() as a:", "    return 's'"]
    if k == 1:
      return [f"def {h}(y) -> int:", "  with A(", f"      {self.either()}) as a:", "    return a.m(", "        1)"]
    if k == 2:
      return [f"def {h}(y) -> int:", "  with A() as a, A('s') as b:", "    if y:", "      return 's'",
              "    return [", "        1]"]
    if k == 3:
      return [f"def {h}(y) -> int:", "  with A() as a:", "    with A() as b:", f"      return {self.either()}",
              "  return 's'"]
    if k == 4:
      return [f"with A() as {self.fresh()}, {self.mistake()} as {self.fresh()}:",
              f"  {self.fresh()} = {self.either()}"]
    return [f"def {h}(y) -> int:", "  with A() as a:", "    try:", "      return 's'", "    finally:",
            f"      {self.fresh()} = {self.either()}"]

  def b_comprehension(self):
    v = self.fresh()
    k = self.r.randrange(5)
    if k == 0:
      return [f"{v} = [{self.mistake()} for _ in [1]]"]
    if k == 1:
      return [f"{v} = [gi(q)", "     for q in ['a']", "     if q.nope]"]
    if k == 2:
      return [f"{v} = {{q: {self.mistake()}", f"     for q in {self.either()}}}"]
    if k == 3:
      return [f"{v} = f2((q for q in {self.mistake()}),", f"       {{{self.mistake()} for q in [1]}})"]
    return [f"{v} = [", f"    {self.mistake()}", "    for q in [1]", f"    if {self.mistake()}", "]"]

  def b_subscript(self):
    v = self.fresh()
    k = self.r.randrange(4)
    if k == 0:
      return [f"{v} = {{'a': 1}}[", "    1.0]"]
    if k == 1:
      return [f"{v} = [1][", "    'x'", "]"]
    if k == 2:
      return [f"{v} = {{'a': {self.mistake()}}}[", f"    {self.mistake()}]"]
    return [f"{v} = (1, 2)[{self.mistake()}][", f"    {self.mistake()}]"]

  def b_compare(self):
    v = self.fresh()
    k = self.r.randrange(4)
    if k == 0:
      return [f"{v} = (1 <", "     'a')"]
    if k == 1:
      return [f"{v} = (1 < 2 <", f"     {self.mistake()} <", "     'b')"]
    if k == 2:
      return [f"{v} = ({self.mistake()} ==", f"     {self.mistake()})"]
    return [f"{v} = ('a' in", "     1)"]

  def b_binop(self):
    v = self.fresh()
    k = self.r.randrange(3)
    if k == 0:
      return [f"{v} = (1 +", "     'a' +", f"     {self.mistake()})"]
    if k == 1:
      return [f"{v} = ({self.mistake()} +", f"     {self.mistake()})"]
    return [f"{v} = [", f"    {self.either()},", f"    {self.either()},", f"] + {self.mistake()}"]

  def b_header(self):
    k = self.r.randrange(6)
    v = self.fresh()
    if k == 0:
      return [f"if {self.mistake()}:", f"  {v} = {self.either()}"]
    if k == 1:
      return [f"if ({self.mistake()} and", f"    {self.mistake()}):", f"  {v} = 1", f"elif {self.mistake()}:",
              f"  {v} = {self.either()}"]
    if k == 2:
      return [f"for {v} in {self.mistake()}, {self.mistake()}:", "  pass"]
    if k == 3:
      return [f"while {self.mistake()}:", f"  {v} = {self.either()}", "  break"]
    if k == 4:
      return [f"for {v} in f2(", f"    {self.mistake()},", f"    {self.mistake()}):", f"  {self.fresh()} = {v}.nope"]
    return [f"if cond: {v} = {self.mistake()}"]

  def b_return_ml(self):
    h = self.fresh("h")
    k = self.r.randrange(4)
    if k == 0:
      return [f"def {h}(a) -> int:", "  return f2(", "      's',", f"      {self.mistake()})"]
    if k == 1:
      return [f"def {h}(a) -> int:", "  return (", "      's')"]
    if k == 2:
      return [f"def {h}(a) -> int:", "  if a:", f"    return {self.mistake()}", "  return [", "      1,", "  ]"]
    return [f"def {h}(a) -> List[int]:", f"  return [{self.either()},", "          's']"]

  def b_class_body(self):
    c = self.fresh("C")
    out = [f"class {c}:", f"  a = {self.mistake()}", f"  b: int = {self.r.choice(['1', repr('s')])}"]
    out += ["  def m(self, p: int) -> int:", f"    {self.fresh()} = {self.mistake()}",
            f"    return {self.r.choice(['p', repr('s'), 'self.nope'])}"]
    if self.r.random() < 0.5:
      out += ["  @property", "  def q(self) -> int:", f"    return {self.either()}"]
    if self.r.random() < 0.5:
      out += ["  @staticmethod", f"  @{self.undefined()}", "  def s(x):", "    return x"]
    return out

  def b_override(self):
    c = self.fresh("S")
    return [f"class {c}(A):", f"  def m(self{self.r.choice(['', ', p: int', ', p, q'])}) -> str:",
            f"    return {self.either()}"]

  def b_semicolon(self):
    return [f"{self.fresh()} = {self.mistake()}; {self.fresh()} = {self.mistake()}"]

  def b_backslash(self):
    v = self.fresh()
    k = self.r.randrange(3)
    if k == 0:
      return [f"{v} = 1 + \\", "    'a'"]
    if k == 1:
      return [f"{v} = {self.mistake()} + \\", f"    {self.mistake()}"]
    return [f"{v} = f2({self.mistake()}, \\", f"    {self.mistake()}) \\", f"    + {self.mistake()}"]

  def b_literal_ml(self):
    v = self.fresh()
    if self.r.random() < 0.5:
      return [f"{v} = {{", f"    'a': {self.either()},", f"    'b': {self.either()},", f"    {self.mistake()}: 1,", "}"]
    return [f"{v} = (", f"    {self.either()},", f"    {self.either()},", ")"]

  def b_lambda(self):
    v = self.fresh()
    k = self.r.randrange(3)
    if k == 0:
      return [f"{v} = (lambda q: q + {self.mistake()})(1)"]
    if k == 1:
      return [f"{v} = (lambda q:", f"     {self.mistake()})"]
    return [f"{v} = f2(lambda: {self.mistake()},", f"       lambda: {self.mistake()})"]

  def b_called_from(self):
    """The same error reached through several call sites / call depths: exercises the
    traceback handling of the error log (dedup, shorter traceback wins, several tracebacks)."""
    h, h2 = self.fresh("h"), self.fresh("h")
    body = self.r.choice(["x + 1", "x.nope", "gi(x)", "x()", "x + 1"])
    arg = "'%s'" if body != "x()" else "%d"
    mk = lambda i: arg % (chr(97 + i) if arg == "'%s'" else i)
    out = [f"def {h}(x):", f"  return {body}", f"def {h2}(y):", f"  return {h}(y)"]
    out += [f"{self.fresh()} = {h}({mk(0)})", f"{self.fresh()} = {h}([])", f"{self.fresh()} = {h}({mk(1)})",
            f"{self.fresh()} = {h2}({mk(2)})", f"{self.fresh()} = {h}(", f"    {mk(3)})",
            f"{self.fresh()} = [{h}({mk(4)}), {h2}({mk(5)}),", f"    {h2}({mk(6)})]"]
    return out

  def b_assert(self):
    return [f"assert {self.mistake()}, {self.mistake()}"]

  def b_augassign(self):
    v = self.fresh()
    return [f"{v} = 1", f"{v} += 'a'", f"{v} -= {self.mistake()}"]

  def b_try(self):
    v = self.fresh()
    return ["try:", f"  {v} = {self.mistake()}", f"except {self.r.choice([self.undefined(), 'ValueError', '(ValueError, ' + self.undefined() + ')'])}:",
            f"  {v} = {self.either()}", "finally:", f"  {self.fresh()} = {self.either()}"]

  def b_import(self):
    k = self.r.randrange(6)
    n = self.fresh("nonexistent_")
    if k == 0:
      return [f"import {n}"]
    if k == 1:
      return [f"import collections as {self.fresh('cc')}, {n}", ]
    if k == 2:
      return [f"from collections import OrderedDict as {self.fresh('OD')}, {n}"]
    if k == 3:
      return ["from collections import (", f"    OrderedDict as {self.fresh('OD')},", f"    {n},", ")"]
    if k == 4:
      return [f"import {n}; {self.fresh()} = {self.mistake()}"]
    return [f"from typing import Set as {self.fresh('St')}, {n}"]

  def b_mlstring(self):
    v = self.fresh()
    if self.r.random() < 0.5:
      return [f'{v} = gs("""abc', 'def""", \'s\')']
    return [f'{v} = f2("""x', f'y""", {self.mistake()},', f'    {self.mistake()})']

  def b_annassign(self):
    v = self.fresh()
    k = self.r.randrange(6)
    if k == 0:
      return [f"{v}: int = 's'"]
    if k == 1:
      return [f"{v}: int = (", "    's')"]
    if k == 2:
      return [f"{v}: List[int] = [", "    's']"]
    if k == 3:
      return [f"{v}: List[int, str] = []"]
    if k == 4:
      return [f"{v}: List[int] = []", f"{v}.append('s')", f"{v}.append(", "    1.0)"]
    return [f"{v}: Dict[str, int] = {{'a': {self.either()},", f"    'b': 's'}}"]

  def b_misc_stmt(self):
    k = self.r.randrange(8)
    v = self.fresh()
    if k == 0:
      return [f"{v}, {self.fresh()} = (1, 2, 3)"]
    if k == 1:
      return ["assert_type(gi(1), str)"]
    if k == 2:
      return ["(1).real = 2"]
    if k == 3:
      return [f"del {self.undefined()}"]
    if k == 4:
      return [f"{v} = gi('a') if cond else gs(1)"]
    if k == 5:
      return [f"{v} = f\"{{{self.mistake()}}} and {{{self.undefined()}}}\""]
    if k == 6:
      return [f"{v} = f2(*[1, 2], **{{'q': {self.mistake()}}})"]
    return [f"print({self.mistake()},", f"      sep={self.mistake()})"]

  def b_nested_def(self):
    h = self.fresh("h")
    return [f"def {h}(a):", "  def inner(b: int) -> int:", f"    {self.fresh()} = {self.mistake()}",
            f"    return {self.r.choice(['b', repr('s'), 'a.nope'])}", f"  return inner({self.either()},",
            f"               {self.either()})"]

  def b_match(self):
    h = self.fresh("h")
    return [f"def {h}(c: Color):", "  match c:", "    case Color.RED:", f"      return {self.either()}"]

  def b_generator(self):
    h = self.fresh("h")
    return [f"def {h}() -> int:", f"  yield {self.either()}"]

  def b_string_annotation(self):
    """Mistakes inside *strings* pytype evaluates later in a temporary frame: quoted annotations
    and `# type:` comments (their errors are first logged at line 1 of that frame, reverted, and
    re-logged at the real line)."""
    k = self.r.randrange(9)
    h, v, u = self.fresh("k"), self.fresh(), self.undefined
    if k == 0:
      return [f"def {h}(a: \"{u()}\") -> \"{u()}\":", "  return a"]
    if k == 1:
      return [f"def {h}(a: \"A.missing\", b: \"List[{u()}]\" = None):", "  return a"]
    if k == 2:
      return [f"{v}: \"{u()}\" = None"]
    if k == 3:
      return [f"{v} = []  # type: {u()}"]
    if k == 4:
      return [f"def {h}(x, y):", f"  # type: ({u()}, int) -> {u()}", "  return x"]
    if k == 5:
      return [f"class {self.fresh('Q')}:", f"  def m(self, o: \"{u()}\") -> \"A.zork\":", "    return None",
              "  w: \"List[A.gone]\" = []"]
    if k == 6:
      return [f"{v}: \"1 + 'a'\" = None", f"def {h}(p: \"gi('s')\",", f"       q: \"{u()}\" = None): pass"]
    if k == 7:
      return [f"{v} = None  # type: A.nope", f"{self.fresh()}: \"List[int, str]\" = []"]
    return [f"def {h}(", f"    a: \"{u()}\",", f"    b: \"A.missing\" = None,", f") -> \"{u()}\":",
            f"  c = {self.either()}", "  return a"]

  def b_directive_time(self):
    """Errors pytype logs while it parses directive comments."""
    v = self.fresh()
    k = self.r.randrange(5)
    if k == 0:
      return [f"{v} = {self.clean()}  # pytype: disable=bogus-error-name"]
    if k == 1:
      return [f"{v} = [", "    1,  # type: int", "    2]"]
    if k == 2:
      return [f"{v} = {self.either()}  # pytype: frobnicate=yes"]
    if k == 3:
      return [f"{v} = f2({self.either()},  # pytype: enable=not-an-error", f"       {self.either()})"]
    return [f"{v} = {self.clean()}  # pytype: disable"]

  BLOCKS = [
      ("single", 3), ("same_line", 3), ("adjacent", 2), ("mlcall", 5), ("nested", 4), ("chain", 2),
      ("decorated", 4), ("decorated_class", 2), ("implicit", 4), ("with", 3), ("comprehension", 2),
      ("subscript", 2), ("compare", 2), ("binop", 2), ("header", 3), ("return_ml", 3),
      ("class_body", 2), ("override", 1), ("semicolon", 1), ("backslash", 1), ("literal_ml", 1),
      ("lambda", 1), ("called_from", 2), ("assert", 1), ("augassign", 1), ("try", 1), ("import", 2),
      ("mlstring", 1), ("annassign", 3), ("misc_stmt", 2), ("nested_def", 1), ("match", 1),
      ("generator", 1), ("directive_time", 2), ("string_annotation", 3),
  ]

  def program(self, nblocks):
    names = [n for n, _ in self.BLOCKS]
    weights = [w for _, w in self.BLOCKS]
    lines = PRELUDE.splitlines()
    forced = []
    if self.r.random() < 0.5:
      # the first physical line of the file carries an error (a directive there covers "line 1",
      # which is also where errors of temporary frames are first logged)
      first = self.r.choice([f"first_v = {self.undefined()}", "first_v = [].foo", "first_v = 1 + 'a'",
                             f"first_v = {self.undefined()}.nope", f"import {self.fresh('nonexistent_')}",
                             f"first_v = ({self.undefined()}, [].foo)"])
      lines.insert(0, first)
      self.kinds.append("first_line_error")
      forced = ["string_annotation"]
    for i in range(nblocks + len(forced)):
      kind = forced[i - nblocks] if i >= nblocks else self.r.choices(names, weights)[0]
      blk = getattr(self, "b_" + kind)()
      blk = [x for l in blk for x in l.split("\n")]
      self.kinds.append(kind)
      lines.extend(blk)
      if self.r.random() < 0.3:
        lines.append("")
    return "\n".join(lines) + "\n"


def _compiles(src):
  with warnings.catch_warnings():
    warnings.simplefilter("ignore")
    try:
      compile(src, "<errorful>", "exec", dont_inherit=True)
      return True
    except SyntaxError:
      return False


def generate(rng: random.Random, nblocks=None):
  """Returns (source, [block kinds])."""
  for _ in range(20):
    g = EGen(rng)
    src = g.program(nblocks or rng.randint(6, 12))
    if _compiles(src):
      return src, g.kinds
  return PRELUDE + "v = 1 + 'a'\n", ["fallback"]


def all_kinds():
  return [n for n, _ in EGen.BLOCKS]


# ---------------------------------------------------------------------------
# Programs built to stress output ordering (C04): many names, unions of >= 4
# members, multiple inheritance, **kwargs, mixed dict/set literals, several
# errors on one line whose order is decided by binding iteration.

_SYLL = ["ba", "ko", "zu", "mi", "ra", "te", "lo", "qi", "vu", "ne", "sa", "dy", "xo", "fe", "gu", "pa"]
_VALUES = ["1", "'s'", "2.5", "None", "b'x'", "[1]", "(1, 's')", "{'k': 1}", "{1, 2}", "True", "3j",
           "[None]", "('a',)", "{'a': 's'}", "frozenset([1])", "range(3)"]


class OGen:
  def __init__(self, rng):
    self.r = rng
    self.used = set()
    self.lines = []

  def name(self, cap=False):
    while True:
      n = "".join(self.r.choice(_SYLL) for _ in range(self.r.choice([2, 2, 3])))
      if self.r.random() < 0.3:
        n += str(self.r.randrange(10))
      if cap:
        n = n.capitalize()
      if n not in self.used and n not in ("None", "True"):
        self.used.add(n)
        return n

  def values(self, k):
    return self.r.sample(_VALUES, k)

  def emit(self, *ls):
    self.lines.extend(ls)

  def union_func(self):
    f = self.name()
    vals = self.values(self.r.randint(4, 7))
    self.emit(f"def {f}(x, *args, **kwargs):")
    for i, v in enumerate(vals[:-1]):
      self.emit(f"  {'if' if i == 0 else 'elif'} x == {i}:", f"    return {v}")
    self.emit(f"  return {vals[-1]}")
    return f

  def klass(self, bases_pool):
    c = self.name(cap=True)
    nb = self.r.choice([0, 1, 1, 2, 2, 3])
    bases = []
    if bases_pool and nb:
      # keep a consistent linearisation: bases in pool order
      pick = sorted(self.r.sample(range(len(bases_pool)), min(nb, len(bases_pool))), reverse=True)
      bases = [bases_pool[i] for i in pick]
    self.emit(f"class {c}({', '.join(bases)}):" if bases else f"class {c}:")
    for _ in range(self.r.randint(1, 4)):
      self.emit(f"  {self.name()} = {self.r.choice(_VALUES)}")
    attrs = [self.name() for _ in range(self.r.randint(1, 3))]
    self.emit("  def __init__(self, *a, **kw):")
    if bases:
      self.emit("    super().__init__(*a, **kw)")
    for a in attrs:
      self.emit(f"    self.{a} = {self.r.choice(_VALUES)}")
    for _ in range(self.r.randint(1, 3)):
      m = self.name()
      a = self.r.choice(attrs)
      vals = self.values(self.r.randint(2, 4))
      self.emit(f"  def {m}(self, p=None, **kw):")
      for i, v in enumerate(vals[:-1]):
        self.emit(f"    if p == {i}:", f"      self.{a} = {v}", f"      return {self.r.choice(_VALUES)}")
      self.emit(f"    self.{a} = {vals[-1]}", f"    return self.{a}")
    if self.r.random() < 0.4:
      self.emit("  @property", f"  def {self.name()}(self):", f"    return (self.{attrs[0]}, {self.r.choice(_VALUES)})")
    if self.r.random() < 0.3:
      inner = self.name(cap=True)
      self.emit(f"  class {inner}:", f"    {self.name()} = {self.r.choice(_VALUES)}")
    return c

  # -- annotated unions (pep484 "compat" pairs pruned by the printer in parameter position) ---------
  _COMPAT = [("int", "float"), ("int", "complex"), ("float", "complex"), ("bytearray", "bytes"),
             ("memoryview", "bytes"), ("int", "float", "complex"), ("bytearray", "memoryview", "bytes")]
  _PLAIN = ["str", "bool", "List[int]", "Dict[str, int]", "Tuple[int, ...]", "Set[str]", "list", "range",
            "frozenset", "None"]
  _LITERAL = {"int": "0", "float": "1.5", "complex": "2j", "bytes": "b'q'", "bytearray": "bytearray()",
              "str": "'d'", "bool": "False", "None": "None", "list": "[]", "range": "range(2)",
              "List[int]": "[1]", "Dict[str, int]": "{}", "Set[str]": "set()", "frozenset": "frozenset()"}

  def union_ann(self, classes, compat=True):
    """(annotation, member with a literal) for a union of 3-6 members in shuffled order."""
    r = self.r
    members = list(r.choice(self._COMPAT)) if compat else []
    if compat and r.random() < 0.3:
      members += [m for m in r.choice(self._COMPAT) if m not in members]
    # class members make pytype instantiate the class for every such parameter (expensive): rare
    pool = self._PLAIN + ([r.choice(classes)] if classes and r.random() < 0.15 else [])
    for m in r.sample(pool, r.randint(2, 3)):
      if m not in members:
        members.append(m)
    members = members[:6]
    r.shuffle(members)
    lit = next((self._LITERAL[m] for m in members if m in self._LITERAL), "None")
    if "None" in members and r.random() < 0.6:
      rest = [m for m in members if m != "None"]
      inner = rest[0] if len(rest) == 1 else f"Union[{', '.join(rest)}]"
      return f"Optional[{inner}]", lit
    return f"Union[{', '.join(members)}]", lit

  def annotated_unions(self, classes):
    r = self.r
    u = lambda compat=True: self.union_ann(classes, compat)
    for i in range(2):                        # module-level functions
      (a, _), (b, bl), (k, kl), (ret, rl) = u(), u(), u(), u(r.random() < 0.7)
      if i == 0:   # every parameter kind once
        self.emit(f"def {self.name()}({self.name()}: {a}, {self.name()}: {b} = {bl}, *{self.name()}: {u()[0]},",
                  f"        {self.name()}: {k} = {kl}, **{self.name()}: {u()[0]}) -> {ret}:",
                  f"  return {rl}")
      else:
        self.emit(f"def {self.name()}({self.name()}: {a}, {self.name()}: {b} = {bl}, *, {self.name()}: {k} = {kl}) -> {ret}:",
                  f"  return {rl}")
    (a, _), (b, bl), (e, _) = u(), u(), u()     # the same unions nested in containers
    self.emit(f"def {self.name()}({self.name()}: List[{a}], {self.name()}: Dict[str, {b}] = None,",
              f"        *, {self.name()}: Optional[Tuple[{e}, ...]] = None) -> Dict[str, List[{u()[0]}]]:",
              "  return {}")
    c = self.name(cap=True)                     # methods, static/class methods, __init__
    base = f"({r.choice(classes)})" if classes and r.random() < 0.5 else ""
    (a, _), (b, bl), (k, kl), (ret, rl) = u(), u(), u(), u()
    self.emit(f"class {c}{base}:",
              f"  {self.name()}: {u()[0]} = {u()[1]}",
              f"  {self.name()}: List[{u()[0]}] = []",
              f"  def __init__(self, {self.name()}: {a} = {u()[1]}, *a, **kw) -> None:",
              "    super().__init__(*a, **kw)" if base else "    pass",
              f"    self.{self.name()}: {u()[0]} = None",
              f"  def {self.name()}(self, {self.name()}: {b} = {bl}, *, {self.name()}: {k} = {kl}) -> {ret}:",
              f"    return {rl}",
              "  @staticmethod",
              f"  def {self.name()}({self.name()}: {u()[0]}, {self.name()}: Set[{u(False)[0]}] = None) -> List[{u()[0]}]:",
              "    return []",
              "  @classmethod",
              f"  def {self.name()}(cls, {self.name()}: Dict[str, {u()[0]}]) -> {u()[0]}:",
              f"    return {rl}")
    for _ in range(r.randint(2, 3)):          # variables
      ann, lit = u()
      k = r.randrange(3)
      if k == 0:
        self.emit(f"{self.name()}: {ann} = {lit}")
      elif k == 1:
        self.emit(f"{self.name()}: List[{ann}] = [{lit}]")
      else:
        self.emit(f"{self.name()}: Dict[str, {ann}] = {{'k': {lit}}}")

  def hidden_bases(self, classes):
    """Classes one of whose bases has no module-level name (a class local to a function, reached
    through a call): the stub writer has to fold that hidden base into the subclass, including
    the hidden base's own 2-4 bases, whose order is the MRO and must not be touched."""
    r = self.r
    for i in range(2):
      k = min(len(classes), r.randint(2, 4))
      if k < 2:
        return
      pick = sorted(r.sample(range(len(classes)), k), reverse=True)   # same order rule as klass()
      bases = [classes[j] for j in pick]
      mk, hid, c = self.name(), self.name(cap=True), self.name(cap=True)
      self.emit(f"def {mk}():", f"  class {hid}({', '.join(bases)}):")
      if i == 0 or r.random() < 0.5:      # with overrides / own members
        self.emit(f"    {self.name()} = {r.choice(_VALUES)}",
                  f"    def {self.name()}(self, p=None):", f"      return {r.choice(_VALUES)}")
      else:
        self.emit("    pass")
      self.emit(f"  return {hid}")
      mixin = ""
      if r.random() < 0.4:
        mixin = self.name(cap=True)
        self.emit(f"class {mixin}:", f"  {self.name()} = {r.choice(_VALUES)}")
      self.emit(f"class {c}({mk}(){', ' + mixin if mixin else ''}):",
                f"  {self.name()} = {r.choice(_VALUES)}",
                f"  def {self.name()}(self):", f"    return {r.choice(_VALUES)}")

  def program(self):
    r = self.r
    self.emit("import collections", "import enum",
              "from typing import Any, Dict, Generic, List, NamedTuple, Optional, Set, Tuple, TypeVar, Union", "")
    self.emit("T = TypeVar('T')", "S = TypeVar('S')")
    # TypeVar ladder: unannotated functions whose inferred signatures need 2-4 type variables
    # (_T0.._T3).  pytype analyses top-level definitions in sorted-name order, so the "Aa<i>..."
    # names make these the first functions analysed: in a fresh process their parameters get the
    # process-global placeholder ids (abstract.Unknown._current_id) 0,1,2 | 3,4,5 | ... crossing
    # 9|10, while after any in-process history the same parameters get ids in the hundreds or
    # thousands.  A type-variable numbering that depends on those ids (their magnitude or their
    # text) gives a different stub in the isolated run than in the history runs.
    shapes3 = ["(c, [b], {a: b})", "{a: (b, c), b: a}", "(b, a, c)", "[(a, c), (c, b)]", "(c, b, a)"]
    shapes4 = ["(d, c, b, a)", "[(a, d), (b, c)]", "{a: d, b: c}", "(b, [d], {c: a})"]
    for i in range(8):
      if i % 2 == 0:
        self.emit(f"def Aa{i}{self.name()}(a, b, c): return {r.choice(shapes3)}")
      else:
        self.emit(f"def Aa{i}{self.name()}(a, b, c, d): return {r.choice(shapes4)}")
    funcs = [self.union_func() for _ in range(r.randint(2, 3))]
    classes = []
    for _ in range(r.randint(3, 5)):
      classes.append(self.klass(classes))
    self.hidden_bases(classes)
    # generic / namedtuple / enum flavours
    nt = self.name(cap=True)
    self.emit(f"{nt} = collections.namedtuple('{nt}', ['{self.name()}', '{self.name()}'])")
    en = self.name(cap=True)
    self.emit(f"class {en}(enum.Enum):")
    for i in range(r.randint(2, 5)):
      self.emit(f"  {self.name().upper()} = {r.choice(['1', repr('s'), '2.0', '(1, 2)'])}")
    g = self.name(cap=True)
    self.emit(f"class {g}(Generic[T, S]):", "  def __init__(self, a: T, b: S):", "    self.a = a", "    self.b = b",
              "  def swap(self):", f"    return {g}(self.b, self.a)")
    # identity-like functions (TypeVar numbering in the stub)
    for _ in range(r.randint(2, 4)):
      f = self.name()
      self.emit(f"def {f}(a, b=0, c=None, *rest, **opts):",
                f"  return {r.choice(['a', 'b', '(a, b)', '[b, a]', '{1: a, 2: b}', 'c or a', 'opts'])}")
      funcs.append(f)
    # module-level state with set-valued intermediate results
    for _ in range(r.randint(5, 8)):
      v = self.name()
      k = r.randrange(9)
      if k == 0:
        self.emit(f"{v} = {{{', '.join(self.values(r.randint(3, 6)))}}}".replace("[1]", "1").replace("[None]", "0")
                  .replace("{'k': 1}", "'k'").replace("{1, 2}", "12").replace("{'a': 's'}", "'a'"))
      elif k == 1:
        vs = self.values(r.randint(3, 6))
        keys = r.sample(["1", "'a'", "2.0", "None", "(1,)", "b'k'", "True"], len(vs))
        self.emit(f"{v} = {{{', '.join(f'{a}: {b}' for a, b in zip(keys, vs))}}}")
      elif k == 2:
        self.emit(f"{v} = [{', '.join(f'{r.choice(funcs)}({i})' for i in range(r.randint(2, 5)))}]")
      elif k == 3:
        c = r.choice(classes)
        self.emit(f"{v} = {c}()", f"{self.name()} = {v}.{'__init__'}")
      elif k == 4:
        self.emit(f"{v} = {r.choice(funcs)}({r.choice(funcs)}(0), k={r.choice(_VALUES)}, **{{'z': {r.choice(_VALUES)}}})")
      elif k == 5:
        cs = r.sample(classes, min(len(classes), r.randint(2, 4)))
        self.emit(f"{v} = [{', '.join(c + '()' for c in cs)}]", f"{self.name()} = {v}[0]")
      elif k == 6:
        f = r.choice(funcs)
        self.emit(f"{v} = {f}(1) if {f}(2) else {f}(3)")
      elif k == 7:
        # several errors on one line, order decided by binding iteration
        f = r.choice(funcs)
        self.emit(f"{v} = {f}(0).{self.name()}")
      else:
        f = r.choice(funcs)
        self.emit(f"{v} = {g}({f}(1), {f}(2)).swap()")
    # one erroneous body reached through several call sites and call depths: the same error is
    # logged repeatedly with equal, comparable and incomparable tracebacks (error-log dedup)
    need, hot, via = self.name(), self.name(), self.name()
    self.emit(f"def {need}(i: int) -> int:", "  return i",
              f"def {hot}(x, y=None):", f"  a = x.{self.name()}", "  b = x + 1", f"  c = {need}(x)", "  d = x()",
              "  return a, b, c, d",
              f"def {via}(z):", f"  return {hot}(z)",
              f"{self.name()} = {hot}('a')", f"{self.name()} = {hot}('b')", f"{self.name()} = {via}('c')",
              f"{self.name()} = [{hot}('d'), {via}('e'),", f"    {via}('f')]")
    self.annotated_unions(classes)
    # a function whose parameter is used with a union receiver -> per-member errors
    f = r.choice(funcs)
    self.emit(f"def {self.name()}(q: Union[int, str, bytes, List[int], None], w: Optional[Dict[str, Set[int]]] = None):",
              f"  return q.{self.name()}, len(q), q + 1, w.keys()")
    return "\n".join(self.lines) + "\n"


def generate_ordering(rng: random.Random) -> str:
  for _ in range(20):
    src = OGen(rng).program()
    if _compiles(src):
      return src
  return "x = {1, 's', 2.0, None}\n"
