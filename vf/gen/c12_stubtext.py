"""C12-specific workload: hand-written-style stub TEXTS and PROGRAMS that refer to
local stub modules through import aliases, plus forward-referenced union aliases and
unions whose members only become equal once resolved.

Why: `serialize_ast.SerializeAst` renames things (UndoModuleAliasesVisitor,
RenameModuleVisitor) and the loader's lookup visitors replace names by the types they
stand for.  Both happen AFTER unions / raise lists were built and sorted, so the
interesting ASTs are those where a rename flips the canonical order of a sorted
collection (`Union[a.X, mmm.Y]` with `import zeta as a`) or where a substitution
creates a union that needs flattening / de-duplication again.  None of that occurs in
stubs pytype prints itself (aliases are printed expanded, definitions before uses).

write_modules(dirpath)        local stub modules for a scratch pythonpath
generate_stub_text(rng)       one stub text (module name 'mod' or 'pkg2.__init__')
generate_program(rng)         one analysable program importing the local modules
MODULES                       {module: (classes, exception classes)}
"""
from __future__ import annotations

import os
import random

# module -> (plain classes, exception classes).  Names are chosen so that aliases can
# fall on either side of a neighbour in string order: 'a' < 'mmm' < 'zeta' < 'zzz'.
MODULES = {
    "zeta": (["Z", "Z2"], ["X"]),
    "mmm": (["W"], ["Y"]),
    "pkg": (["P"], []),
    "pkg.mod": (["M"], ["Q"]),
    "zzz": (["R"], []),
    "zzz.mod": (["X"], ["E"]),
    "aaa": (["A"], ["AE"]),
}
FILES = {
    "zeta.pyi": "class X(Exception): ...\nclass Z: ...\nclass Z2(Z): ...\n",
    "mmm.pyi": "class Y(Exception): ...\nclass W: ...\n",
    "pkg/__init__.pyi": "class P: ...\n",
    "pkg/mod.pyi": "class Q(Exception): ...\nclass M: ...\n",
    "zzz/__init__.pyi": "class R: ...\n",
    "zzz/mod.pyi": "class X: ...\nclass E(Exception): ...\n",
    "aaa.pyi": "class A: ...\nclass AE(Exception): ...\n",
}
# alias names on both sides of every module name
ALIASES = ["a", "b_", "m", "n_", "q", "z", "zz_", "_u", "A_", "yy"]


def write_modules(dirpath: str):
  for rel, text in FILES.items():
    p = os.path.join(dirpath, rel)
    os.makedirs(os.path.dirname(p), exist_ok=True)
    with open(p, "w") as f:
      f.write(text)


class _Imports:
  """Chooses how each module is imported in one stub/program: plain or aliased."""

  def __init__(self, rng, p_alias=0.6):
    self.rng = rng
    self.lines = []
    self.prefix = {}      # module -> list of prefixes usable in annotations
    used = set()
    mods = rng.sample(sorted(MODULES), rng.choice([2, 3, 4, 5]))
    if rng.random() < 0.7:
      for need in ("zeta", "mmm"):
        if need not in mods:
          mods.append(need)
    for m in mods:
      prefixes = []
      if rng.random() < p_alias:
        al = rng.choice([x for x in ALIASES if x not in used])
        used.add(al)
        self.lines.append(f"import {m} as {al}")
        prefixes.append(al)
        if rng.random() < 0.25:     # the same module also under its own name
          self.lines.append(f"import {m}")
          prefixes.append(m)
      else:
        self.lines.append(f"import {m}")
        prefixes.append(m)
      self.prefix[m] = prefixes
    rng.shuffle(self.lines)

  def ref(self, exc=False):
    """A dotted reference `prefix.Class` to a plain class (or exception class)."""
    rng = self.rng
    cands = [(m, c) for m in self.prefix for c in MODULES[m][1 if exc else 0]]
    if not cands:
      cands = [(m, c) for m in self.prefix for c in MODULES[m][0] + MODULES[m][1]]
    m, c = rng.choice(cands)
    return f"{rng.choice(self.prefix[m])}.{c}"

  def same_class_two_spellings(self):
    for m, ps in self.prefix.items():
      if len(ps) > 1:
        c = self.rng.choice(MODULES[m][0] + MODULES[m][1])
        return [f"{p}.{c}" for p in ps]
    return None


def _type(rng, imp, depth=1, fwd=()):
  """An annotation expression (text)."""
  r = rng.random()
  if depth <= 0 or r < 0.35:
    k = rng.random()
    if k < 0.55:
      return imp.ref()
    if k < 0.70 and fwd:
      return rng.choice(list(fwd))
    return rng.choice(["int", "str", "bytes", "None", "builtins.int", "float", "object",
                       "builtins.str", "bool"])
  k = rng.random()
  if k < 0.45:
    n = rng.choice([2, 2, 3, 4])
    ms = [_type(rng, imp, depth - 1, fwd) for _ in range(n)]
    two = imp.same_class_two_spellings()
    if two and rng.random() < 0.3:
      ms += two
    if rng.random() < 0.25:
      ms += rng.choice([["int", "builtins.int"], ["str", "builtins.str"], ["None", "None"]])
    rng.shuffle(ms)
    return "Union[" + ", ".join(ms) + "]"
  if k < 0.65:
    return "Optional[" + _type(rng, imp, depth - 1, fwd) + "]"
  if k < 0.75:
    return "List[" + _type(rng, imp, depth - 1, fwd) + "]"
  if k < 0.82:
    return "Dict[str, " + _type(rng, imp, depth - 1, fwd) + "]"
  if k < 0.90:
    return "Callable[[" + _type(rng, imp, depth - 1, fwd) + "], " + _type(rng, imp, depth - 1, fwd) + "]"
  if k < 0.95:
    return "Tuple[" + _type(rng, imp, depth - 1, fwd) + ", ...]"
  return "Type[" + imp.ref() + "]"


def generate_stub_text(rng: random.Random) -> str:
  """A stub in the wider hand-written dialect (aliases unexpanded, forward references,
  raise lists) that `SourceToExportableAst` / the loader must digest."""
  imp = _Imports(rng)
  lines = ["import builtins"] + imp.lines + [
      "from typing import Callable, Dict, List, Optional, Tuple, Type, TypeVar, Union", ""]
  # union aliases: some defined before use, some after (forward references)
  n_alias = rng.choice([0, 1, 2, 3])
  alias_defs = []
  for i in range(n_alias):
    alias_defs.append((f"U{i}", _type(rng, imp, 1).replace("Optional[", "Union[None, ")
                       if rng.random() < 0.3 else
                       "Union[" + ", ".join(_type(rng, imp, 0) for _ in range(rng.choice([2, 3]))) + "]"))
  before = [a for a in alias_defs if rng.random() < 0.4]
  after = [a for a in alias_defs if a not in before]
  for n, t in before:
    lines.append(f"{n} = {t}")
  fwd = [n for n, _ in alias_defs]
  for i in range(rng.choice([1, 2, 3])):
    lines.append(f"c{i}: {_type(rng, imp, 2, fwd)}")
  for i in range(rng.choice([1, 2, 3, 4])):
    ps = ", ".join(f"p{j}: {_type(rng, imp, 2, fwd)}" for j in range(rng.choice([0, 1, 2])))
    ret = _type(rng, imp, 2, fwd)
    raises = [imp.ref(exc=True) for _ in range(rng.choice([0, 0, 2, 3, 4]))]
    if raises:
      lines.append(f"def f{i}({ps}) -> {ret}:")
      for e in dict.fromkeys(raises):
        lines.append(f"  raise {e}()")
    else:
      lines.append(f"def f{i}({ps}) -> {ret}: ...")
  if rng.random() < 0.6:
    base = imp.ref()
    lines.append(f"class K({base}):")
    lines.append(f"  attr: {_type(rng, imp, 2, fwd)}")
    lines.append(f"  def m(self, x: {_type(rng, imp, 1, fwd)}) -> {_type(rng, imp, 1, fwd)}: ...")
    if rng.random() < 0.5:
      lines.append("  def r(self) -> None:")
      for e in dict.fromkeys(imp.ref(exc=True) for _ in range(3)):
        lines.append(f"    raise {e}()")
  for n, t in after:
    lines.append(f"{n} = {t}")
  return "\n".join(lines) + "\n"


def generate_program(rng: random.Random) -> str:
  """A program whose inferred stub mentions aliased modules inside unions."""
  imp = _Imports(rng, p_alias=0.8)
  lines = imp.lines + ["from typing import Callable, Dict, List, Optional, Tuple, Type, Union", ""]
  for i in range(rng.choice([2, 3, 4])):
    ps = ", ".join(f"p{j}: {_type(rng, imp, 1)}" for j in range(rng.choice([1, 2])))
    lines.append(f"def f{i}({ps}) -> {_type(rng, imp, 2)}:")
    lines.append(f"  raise {imp.ref(exc=True)}()")
  for i in range(rng.choice([1, 2])):
    lines.append(f"v{i}: {_type(rng, imp, 2)} = None")
  refs = [imp.ref() for _ in range(3)]
  lines.append("def pick(n):")
  for j, r in enumerate(refs):
    lines.append(f"  if n == {j}: return {r}()")
  lines.append("  return None")
  lines.append("w = pick(1)")
  lines.append(f"class K({imp.ref()}):")
  lines.append(f"  def m(self, x: {_type(rng, imp, 1)}): return x")
  return "\n".join(lines) + "\n"
