#!/usr/bin/env python3
"""Regenerates MANIFEST.json from the table below (kept in one place so the
manifest is always schema-valid).  Run: python3 tools/mkmanifest.py"""
import json
import os
import subprocess

HERE = os.path.dirname(os.path.dirname(os.path.abspath(__file__)))

ENTRIES = json.load(open(os.path.join(HERE, "tools", "manifest_entries.json")))
CHECKS = {k: (v["technique"], v["text"], v["note"], k) for k, v in ENTRIES.items() if not v.get("disabled")}

PENDING_REASON = "check not built yet in this round (planned: see DESIGN.md section for this property)"


def main():
  props = [json.loads(l)["id"] for l in open(os.path.join(HERE, "properties.jsonl"))]
  checks = []
  for pid in props:
    if pid not in CHECKS:
      continue
    tech, text, note, ref = CHECKS[pid]
    checks.append({
        "property_id": pid,
        "quick_cmd": f"./check {pid} quick",
        "thorough_cmd": f"./check {pid} thorough",
        "evidence_file": f"evidence/{pid}.json",
        "replay_cmd_template": f"./check {pid} --replay {{path}}",
        "engine": "vf",
        "level_claimed": {"category": "exploration", "text": text, "design_ref": f"DESIGN.md#{ref}"},
        "level_note": note,
        "technique": tech,
    })
  try:
    commits = subprocess.run(
        ["git", "-C", "/repo", "log", "--format=%H %s", "503ad64..HEAD"],
        capture_output=True, text=True).stdout.splitlines()
  except OSError:
    commits = []
  hook_commits = [c.split()[0] for c in commits if " hook:" in c or "verif hook" in c]
  m = {
      "version": 1,
      "setup_cmd": "./setup.sh",
      "hooks": {
          "guard": "PYTYPE_VERIF",
          "enable": "No source hooks in /repo: ./check exports PYTYPE_VERIF=1 and the harness bootstrap (vf/boot.py) builds the "
                    "typegraph C++ extension from /repo's working tree into /verif/build (content-hash cached) and attaches "
                    "monitors by wrapping pytype functions at import time.",
          "baseline_off_cmd": "cd /repo && env -u PYTYPE_VERIF /venv/bin/python -m pytest -ra -q -p no:cacheprovider --timeout=900 --continue-on-collection-errors",
          "source_commits": hook_commits,
          "add_only": True,
      },
      "engines": [{"name": "vf", "path": "vf/", "serves_properties": [c["property_id"] for c in checks],
                   "kind_free_text": "runtime monitors / differential oracles over generated workloads; ASan+UBSan builds of the typegraph extension"}],
      "checks": checks,
      "not_applicable": [{"property_id": p, "reason": PENDING_REASON} for p in props if p not in CHECKS],
      "notes": "All checks: ./check <ID> quick|thorough; exit 0 held / 1 violation / 2 inconclusive. known_findings.json lists recorded genuine defects.",
  }
  with open(os.path.join(HERE, "MANIFEST.json"), "w") as f:
    json.dump(m, f, indent=1)
  print("MANIFEST.json:", len(checks), "checks,", len(m["not_applicable"]), "not claimed")


if __name__ == "__main__":
  main()
