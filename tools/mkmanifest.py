#!/usr/bin/env python3
"""Regenerates MANIFEST.json from the table below (kept in one place so the
manifest is always schema-valid).  Run: python3 tools/mkmanifest.py"""
import json
import os
import subprocess

HERE = os.path.dirname(os.path.dirname(os.path.abspath(__file__)))

# id -> (technique, level text, level note, design section)
CHECKS = {
    "C09": (
        "shadow-model runtime monitor (BFS over recorded edge list) on exhaustive+random insertion histories, repeated under ASan+UBSan",
        "Every is_reachable answer for every ordered node pair is compared with a from-scratch BFS after insertion steps, "
        "for all op sequences over <=3 nodes up to a bound, all digraphs on 4 nodes in several orders and random histories "
        "up to 400 nodes crossing 64-bit bucket boundaries; the same workload runs against an ASan+UBSan build. Held on what was explored, not a proof.",
        "Trusts the harness BFS as the definition of reachability and pybind11's marshalling; sanitizer covers only typegraph C++ code reached.",
        "C09"),
    "C07": (
        "differential runtime oracle: declarative explaining-path reference evaluated on the graph read back from the live Program; exhaustive tiny graphs + random + live VM graphs; ASan+UBSan repeat",
        "HasCombination/IsVisible/Filter/Bindings/CanHaveCombination are compared, for every node and every binding subset of size<=3, with a cache-free "
        "reference of the property's own definition: exact equality on acyclic condition-free graphs (n=2 complete, n=3 enumerated slice, random DAGs), "
        "explained=>accepted on acyclic graphs with conditions, and the reachability / subset / CanHave laws on all graphs including live typegraphs of real "
        "VM analyses. One listed known finding (cycles through conditional nodes). Held on what was explored.",
        "Trusts the harness reference model (vf/oracle/tg.py) as the meaning of the property and the public graph attributes as a faithful export.",
        "C07"),
    "C08": (
        "history monitor with executable model: every query on a long-lived Program is compared with a replica rebuilt from the recorded op log (and re-asked); solver-instance counter attributes stale answers to a mutator; ASan+UBSan repeat",
        "Thousands of short random histories over every public mutator and query, biased to query->mutation->same-query, each query checked against a from-scratch "
        "replica; found and led to three fix: commits (source-set pointer ordering, AddOrigin(SourceSet) and set_condition not invalidating the solver). Sampled histories, not all.",
        "Trusts that replaying the mutating ops reproduces 'a freshly built copy'; pybind wrappers are part of the system under test.",
        "C08"),
    "C01": (
        "differential runtime oracle: CPython execution under sys.setprofile vs pytype's stub, structural membership of every observed value; AST delta-debugging of witnesses; mechanism diagnosis from the live typegraph and CPython object identity",
        "Generated loop-free programs are executed by CPython and analysed by pytype; every module-level name, instance attribute and module-level call result must be "
        "admitted by its declared type (don't-know resolves to admit). Violations are minimised and attributed to an observed mechanism; led to fix e0e6e69 "
        "(simplify_variable) and two listed known findings. Held on the programs explored.",
        "Trusts CPython as ground truth and the harness membership oracle (vf/oracle/admit.py); only the generated fragment; stdlib imports are Any (empty typeshed).",
        "C01"),
}

PENDING_REASON = "check not built yet in this round (planned: see DESIGN.md section for this property)"


def main():
  props = [json.loads(l)["id"] for l in open(os.path.join(HERE, "properties.jsonl"))]
  checks = []
  for pid in props:
    if pid not in CHECKS:
      continue
    tech, text, note, ref = CHECKS[pid]
    checks.append({
        "property_id": pid,
        "quick_cmd": f"./check {pid} quick",
        "thorough_cmd": f"./check {pid} thorough",
        "evidence_file": f"evidence/{pid}.json",
        "replay_cmd_template": f"./check {pid} --replay {{path}}",
        "engine": "vf",
        "level_claimed": {"category": "exploration", "text": text, "design_ref": f"DESIGN.md#{ref}"},
        "level_note": note,
        "technique": tech,
    })
  try:
    commits = subprocess.run(
        ["git", "-C", "/repo", "log", "--format=%H %s", "503ad64..HEAD"],
        capture_output=True, text=True).stdout.splitlines()
  except OSError:
    commits = []
  hook_commits = [c.split()[0] for c in commits if " hook:" in c or "verif hook" in c]
  m = {
      "version": 1,
      "setup_cmd": "./setup.sh",
      "hooks": {
          "guard": "PYTYPE_VERIF",
          "enable": "No source hooks in /repo: ./check exports PYTYPE_VERIF=1 and the harness bootstrap (vf/boot.py) builds the "
                    "typegraph C++ extension from /repo's working tree into /verif/build (content-hash cached) and attaches "
                    "monitors by wrapping pytype functions at import time.",
          "baseline_off_cmd": "cd /repo && env -u PYTYPE_VERIF /venv/bin/python -m pytest -ra -q -p no:cacheprovider --timeout=900 --continue-on-collection-errors",
          "source_commits": hook_commits,
          "add_only": True,
      },
      "engines": [{"name": "vf", "path": "vf/", "serves_properties": [c["property_id"] for c in checks],
                   "kind_free_text": "runtime monitors / differential oracles over generated workloads; ASan+UBSan builds of the typegraph extension"}],
      "checks": checks,
      "not_applicable": [{"property_id": p, "reason": PENDING_REASON} for p in props if p not in CHECKS],
      "notes": "All checks: ./check <ID> quick|thorough; exit 0 held / 1 violation / 2 inconclusive. known_findings.json lists recorded genuine defects.",
  }
  with open(os.path.join(HERE, "MANIFEST.json"), "w") as f:
    json.dump(m, f, indent=1)
  print("MANIFEST.json:", len(checks), "checks,", len(m["not_applicable"]), "not claimed")


if __name__ == "__main__":
  main()
