#!/usr/bin/env python3
"""Regenerates the seeded-change table in DESIGN.md from seeded/*/meta.json."""
import json, os, re
HERE = os.path.dirname(os.path.dirname(os.path.abspath(__file__)))
rows = []
for sid in sorted(os.listdir(os.path.join(HERE, "seeded"))):
    m = json.load(open(os.path.join(HERE, "seeded", sid, "meta.json")))
    needs = m["needs_to_manifest"].replace("|", "\\|").replace("\n", " ")
    runs = m["checks_run"].replace("|", "\\|").replace("\n", " ")
    rows.append(f"| {sid} | {m['breaks_property']} | {needs} | {runs} |")
table = ("<!-- SEEDTABLE-BEGIN -->\n| seed | breaks | needs to manifest | checks run (quick tier) |\n|---|---|---|---|\n"
         + "\n".join(rows) + "\n<!-- SEEDTABLE-END -->")
p = os.path.join(HERE, "DESIGN.md")
s = open(p).read()
if "<!-- SEEDTABLE-BEGIN -->" in s:
    s = re.sub(r"<!-- SEEDTABLE-BEGIN -->.*<!-- SEEDTABLE-END -->", lambda _: table, s, flags=re.S)
else:
    # replace the hand-written table
    i = s.index("| seed | breaks | caught by (quick tier) |")
    j = s.index("(builder notes keep the per-check mutation logs")
    s = s[:i] + table + "\n\n" + s[j:]
open(p, "w").write(s)
print(len(rows), "seeds in table")
