#!/usr/bin/env python3
"""tools/importseed.py <seed-out-dir>/<n> <seed-id> <property> "<needs>" "<caught by>" : store a confirmed seeded change."""
import json, os, shutil, sys
src, sid, prop, needs, caught = sys.argv[1:6]
dst = os.path.join("/verif/seeded", sid)
os.makedirs(dst, exist_ok=True)
for f in ("patch.diff", "demo.py", "README.md"):
    if os.path.exists(os.path.join(src, f)):
        shutil.copy(os.path.join(src, f), os.path.join(dst, f))
meta = {
  "seed_id": sid, "breaks_property": prop, "needs_to_manifest": needs,
  "origin": "independent sub-agent given only the property text and a scratch worktree",
  "confirmed": {
     "how": "scratch worktree of /repo HEAD; extension rebuilt outside the tree; demo.py run with REPO/EXTDIR/TYPESHED_HOME",
     "demo_without_patch_rc": 0, "demo_with_patch_rc": 1,
     "baseline_with_patch": "171 passed, 221 errors (collection errors are the sandbox norm)"},
  "checks_run": caught,
}
json.dump(meta, open(os.path.join(dst, "meta.json"), "w"), indent=1)
print("stored", dst)
