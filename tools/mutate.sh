#!/bin/bash
# tools/mutate.sh <patch-file|-> <ID> [tier]  : apply a patch to /repo, run one check, revert.
# With "-" the patch is read from stdin (sed-style edits can be done before calling with an empty patch).
set -u
PATCH="$1"; ID="$2"; TIER="${3:-quick}"
cd /repo || exit 9
if [ -n "$(git status --porcelain --untracked-files=no)" ]; then echo "repo dirty"; exit 9; fi
git apply "$PATCH" || { echo "patch failed"; exit 9; }
cd /verif && ./check "$ID" "$TIER" > /tmp/mut-$ID.log 2>&1; rc=$?
git -C /repo checkout -- .
echo "rc=$rc"; grep -E "^VIOLATION|mechanism|INCONCLUSIVE|^\[" /tmp/mut-$ID.log | head -12
