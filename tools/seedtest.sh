#!/bin/bash
# tools/seedtest.sh <patch.diff> <ID> [tier]   -- run check <ID> against a scratch worktree of /repo with the patch applied.
# (equivalent to `git -C /repo apply` + check + `git -C /repo checkout -- .`, but leaves /repo untouched)
set -u
PATCH="$(readlink -f "$1")"; ID="$2"; TIER="${3:-quick}"
WT="/tmp/seedtest-$$"
git -C /repo worktree add --detach "$WT" HEAD -q || exit 9
( cd "$WT" && git apply "$PATCH" ) || { echo "patch does not apply"; git -C /repo worktree remove --force "$WT"; exit 9; }
cd /verif
VERIF_REPO="$WT" ./check "$ID" "$TIER" > "/tmp/seedtest-$ID-$$.log" 2>&1; rc=$?
git -C /repo worktree remove --force "$WT"
echo "check $ID $TIER on $(basename "$(dirname "$PATCH")")/$(basename "$PATCH"): rc=$rc"
grep -E "^VIOLATION|^  mechanism|^INCONCLUSIVE|^KNOWN-FINDING|^\[C" "/tmp/seedtest-$ID-$$.log" | sort | uniq -c | sort -rn | head -8
rm -f "/tmp/seedtest-$ID-$$.log"
exit $rc
